import LarkVerif.EarleyExec
/-! C08 (Earley clause, continuation sets): the terminals reported as `expected` at a position — the terminals after the dot of the items of
    that chart column (`{item.expect for item in to_scan}`, earley.py:286, xearley.py:129) — are **exactly** the terminals that can legally come
    next: `a` is expected at `i` iff some reading `u` of the text up to `i` (a lattice path, ignored stretches anywhere) followed by `a` begins
    a sentence.  `←` (nothing that can come next is missing) holds for every grammar; `→` (nothing bogus is reported) needs every rule to be
    productive — without it the statement is false of the chart and of lark alike (`unproductive_counterexample`). `productiveB` is the
    decidable certificate the harness evaluates per grammar. -/
namespace EarleyProto

/-- terminal `a` is reported as expected at position `i` -/
def Expected (G : Grammar) (L : Lattice) (start i a : Nat) : Prop :=
  ∃ r d k, Chart G L start i ⟨r, d, k⟩ ∧ r.rhs[d]? = some (Sym.t a)

/-- terminal `a` can legally come next at position `i`: a sentence begins with a reading of the text up to `i` followed by `a` -/
def LegalNext (G : Grammar) (L : Lattice) (start i a : Nat) : Prop :=
  ∃ u w, Path L 0 i u ∧ DerivesSeq G [Sym.nt start] (u ++ a :: w)

/-- every rule can be completed to a terminal string (a "reduced" grammar in the productive sense) -/
def Productive (G : Grammar) : Prop := ∀ r ∈ G.rules, ∃ w, DerivesSeq G r.rhs w

theorem DerivesSeq.split {G : Grammar} : ∀ {α β : List Sym} {w : List Nat}, DerivesSeq G (α ++ β) w →
    ∃ w1 w2, w = w1 ++ w2 ∧ DerivesSeq G α w1 ∧ DerivesSeq G β w2 := by
  intro α
  induction α with
  | nil => intro β w h; exact ⟨[], w, rfl, DerivesSeq.nil, by simpa using h⟩
  | cons s α ih =>
    intro β w h
    generalize hγ : (s :: α) ++ β = γ at h
    cases h with
    | nil => cases hγ
    | term a rest ts h' =>
      simp only [List.cons_append, List.cons.injEq] at hγ
      obtain ⟨rfl, rfl⟩ := hγ
      obtain ⟨w1, w2, rfl, h1, h2⟩ := ih h'
      exact ⟨a :: w1, w2, rfl, DerivesSeq.term a _ _ h1, h2⟩
    | nonterm r rest ts1 ts2 hr h1 h2 =>
      simp only [List.cons_append, List.cons.injEq] at hγ
      obtain ⟨rfl, rfl⟩ := hγ
      obtain ⟨w1, w2, rfl, h1', h2'⟩ := ih h2
      exact ⟨ts1 ++ w1, w2, by simp, DerivesSeq.nonterm r _ ts1 w1 hr h1 h1', h2'⟩

theorem rhs_split (l : List Sym) (d : Nat) (x : Sym) (h : l[d]? = some x) : l = l.take d ++ x :: l.drop (d + 1) := by
  have h1 : l.drop d = x :: l.drop (d + 1) := by
    have hd : d < l.length := by
      rcases Nat.lt_or_ge d l.length with h' | h'
      · exact h'
      · rw [List.getElem?_eq_none h'] at h; cases h
    rw [List.drop_eq_getElem_cons hd]
    rw [List.getElem?_eq_getElem hd] at h
    cases h; rfl
  calc l = l.take d ++ l.drop d := (List.take_append_drop d l).symm
    _ = _ := by rw [h1]

/-- what a productive rule's tail derives -/
theorem Productive.tail {G : Grammar} (hP : Productive G) {r : Rule} (hr : r ∈ G.rules) (d : Nat) :
    ∃ w, DerivesSeq G (r.rhs.drop d) w := by
  obtain ⟨w, hw⟩ := hP r hr
  rw [← List.take_append_drop d r.rhs] at hw
  obtain ⟨_, w2, _, _, h2⟩ := hw.split
  exact ⟨w2, h2⟩

theorem DerivesSeq.single {G : Grammar} {r : Rule} (hr : r ∈ G.rules) {v : List Nat} (h : DerivesSeq G r.rhs v) :
    DerivesSeq G [Sym.nt r.lhs] v := by
  have := DerivesSeq.nonterm r [] v [] hr h DerivesSeq.nil
  simpa using this

/-- top-down validity of a chart item: its left-hand side is wanted at its origin by a context that can be completed to a sentence -/
def Valid (G : Grammar) (L : Lattice) (start k A : Nat) : Prop :=
  ∃ u0, Path L 0 k u0 ∧ ∀ v, DerivesSeq G [Sym.nt A] v → ∃ w, DerivesSeq G [Sym.nt start] (u0 ++ v ++ w)

theorem Chart.valid {G : Grammar} {L : Lattice} {start : Nat} (hP : Productive G) {i it} (h : Chart G L start i it) :
    Valid G L start it.origin it.rule.lhs := by
  induction h with
  | init r hr hs =>
    refine ⟨[], Path.nil 0, fun v hv => ⟨[], ?_⟩⟩
    simpa [hs] using hv
  | predict i r d k r' hc hd hr' ih =>
    obtain ⟨u0, hp0, H⟩ := ih
    obtain ⟨ts, hp, hder⟩ := hc.sound
    obtain ⟨wβ, hβ⟩ := hP.tail hc.rule_mem (d + 1)
    refine ⟨u0 ++ ts, hp0.append hp, fun v hv => ?_⟩
    have hrhs : DerivesSeq G r.rhs (ts ++ (v ++ wβ)) := by
      have e := rhs_split r.rhs d _ hd
      rw [e]
      refine DerivesSeq.append hder ?_
      have := DerivesSeq.append hv hβ
      simpa using this
    obtain ⟨w, hw⟩ := H _ (DerivesSeq.single hc.rule_mem hrhs)
    exact ⟨wβ ++ w, by simpa [List.append_assoc] using hw⟩
  | scan i j r d k a _ _ _ ih => exact ih
  | ignore i j r d k a _ _ _ ih => exact ih
  | complete i j r' r d k _ _ _ _ ih2 => exact ih2
  | carry i j r k _ _ _ _ ih => exact ih

/-- **nothing bogus is expected** (productive grammars): a terminal reported as expected can legally come next -/
theorem expected_is_legal {G : Grammar} {L : Lattice} {start i a : Nat} (hP : Productive G) (h : Expected G L start i a) :
    LegalNext G L start i a := by
  obtain ⟨r, d, k, hc, hd⟩ := h
  obtain ⟨u0, hp0, H⟩ := hc.valid hP
  obtain ⟨ts, hp, hder⟩ := hc.sound
  obtain ⟨wβ, hβ⟩ := hP.tail hc.rule_mem (d + 1)
  have hrhs : DerivesSeq G r.rhs (ts ++ a :: wβ) := by
    have e := rhs_split r.rhs d _ hd
    rw [e]
    exact DerivesSeq.append hder (DerivesSeq.term a _ _ hβ)
  obtain ⟨w, hw⟩ := H _ (DerivesSeq.single hc.rule_mem hrhs)
  exact ⟨u0 ++ ts, wβ ++ w, hp0.append hp, by simpa [List.append_assoc] using hw⟩

theorem Expected.ign {G : Grammar} {L : Lattice} {start i j a : Nat} (h : Expected G L start i a) (hi : IgnStar L i j) :
    Expected G L start j a := by
  induction hi with
  | refl => exact h
  | step x y z hxy _ ih =>
    obtain ⟨r, d, k, hc, hd⟩ := h
    exact ih ⟨r, d, k, Chart.ignore x y r d k a hc hd hxy, hd⟩

/-- the completeness engine for continuation sets: an item whose remainder derives `u1 ++ a :: w` leads, over `u1`, to an item expecting `a` -/
theorem Chart.expects {G : Grammar} {L : Lattice} {start a : Nat} :
    ∀ {β : List Sym} {u : List Nat}, DerivesSeq G β u →
    ∀ {i j r d k} (γ : List Sym) (u1 w : List Nat), Chart G L start i ⟨r, d, k⟩ →
      r.rhs.drop d = β ++ γ → u = u1 ++ a :: w → Steps L i j u1 → Expected G L start j a := by
  intro β u h
  induction h with
  | nil =>
    intro i j r d k γ u1 w _ _ hu _
    cases u1 <;> simp at hu
  | term b rest ts _ ih =>
    intro i j r d k γ u1 w hc hdrop hu hs
    have hd : r.rhs[d]? = some (Sym.t b) := by
      have := congrArg List.head? hdrop
      simpa [List.head?_drop] using this
    cases u1 with
    | nil =>
      simp only [List.nil_append, List.cons.injEq] at hu
      obtain ⟨rfl, _⟩ := hu
      cases hs
      exact ⟨r, d, k, hc, hd⟩
    | cons x u1' =>
      simp only [List.cons_append, List.cons.injEq] at hu
      obtain ⟨rfl, hu'⟩ := hu
      cases hs with
      | cons _ i' m _ _ _ hi he hs' =>
        have hc' : Chart G L start i' ⟨r, d, k⟩ := by
          clear he hs' ih
          induction hi with
          | refl => exact hc
          | step x y z hxy _ ih' => exact ih' (Chart.ignore x y r d k b hc hd hxy)
        have hc'' := Chart.scan i' m r d k b hc' hd he
        exact ih γ u1' w hc'' (by
          have h2 : r.rhs.drop (d+1) = (r.rhs.drop d).tail := by simp [List.tail_drop]
          rw [h2, hdrop]; rfl) hu' hs'
  | nonterm r' rest ts1 ts2 hr' hd1 _ ih1 ih2 =>
    intro i j r d k γ u1 w hc hdrop hu hs
    have hd : r.rhs[d]? = some (Sym.nt r'.lhs) := by
      have := congrArg List.head? hdrop
      simpa [List.head?_drop] using this
    have hp := Chart.predict i r d k r' hc hd hr'
    have after : ∀ (x : List Nat) (j' : Nat), Steps L i j' ts1 → Steps L j' j x → ts2 = x ++ a :: w → Expected G L start j a := by
      intro x j' hs1 hs2 h2
      have hfull := Chart.advance hd1 hp (by simp) hs1
      have hcomp := Chart.complete j' i r' r d k (by simpa using hfull) hc hd
      exact ih2 γ x w hcomp (by
        have h3 : r.rhs.drop (d+1) = (r.rhs.drop d).tail := by simp [List.tail_drop]
        rw [h3, hdrop]; rfl) h2 hs2
    rcases List.append_eq_append_iff.mp hu with ⟨x, h1, h2⟩ | ⟨x, h1, h2⟩
    · -- `a` comes after the yield of `r'`
      subst h1
      obtain ⟨m, hs1, hs2⟩ := Steps.split hs
      exact after x m hs1 hs2 h2
    · cases x with
      | nil =>
        -- `a` is the first token after the yield of `r'`
        simp only [List.append_nil] at h1
        subst h1
        exact after [] j hs (Steps.nil j) (by simpa using h2.symm)
      | cons y x' =>
        -- `a` lies inside the yield of `r'`
        simp only [List.cons_append, List.cons.injEq] at h2
        obtain ⟨rfl, _⟩ := h2
        exact ih1 [] u1 x' hp (by simp) h1 hs

/-- **nothing that can come next is missing** (every grammar): a terminal that can legally come next is reported as expected -/
theorem legal_is_expected {G : Grammar} {L : Lattice} {start i a : Nat} (h : LegalNext G L start i a) :
    Expected G L start i a := by
  obtain ⟨u, w, hp, hd⟩ := h
  have hinv : ∃ r ∈ G.rules, r.lhs = start ∧ DerivesSeq G r.rhs (u ++ a :: w) := by
    generalize hα : [Sym.nt start] = α at hd
    generalize u ++ a :: w = v at hd
    cases hd with
    | nil => cases hα
    | term => cases hα
    | nonterm r rest ts1 ts2 hr h1 h2 =>
      simp only [List.cons.injEq, Sym.nt.injEq] at hα
      obtain ⟨h, hrest⟩ := hα
      subst hrest
      cases h2
      exact ⟨r, hr, h.symm, by simpa using h1⟩
  obtain ⟨r, hr, hs, hder⟩ := hinv
  obtain ⟨m, hsteps, hign⟩ := hp.decompose
  have h0 := Chart.init (L := L) r hr hs
  exact (Chart.expects hder [] u w h0 (by simp) rfl hsteps).ign hign

/-- **C08, dynamic Earley lexers: the expected set is exact.** -/
theorem expected_iff_legal {G : Grammar} {L : Lattice} {start i a : Nat} (hP : Productive G) :
    Expected G L start i a ↔ LegalNext G L start i a :=
  ⟨expected_is_legal hP, legal_is_expected⟩

/-! ### a decidable certificate for `Productive` -/

/-- `done` lists nonterminals already known to derive a terminal string -/
def symOk (done : List Nat) : Sym → Bool
  | Sym.t _ => true
  | Sym.nt A => done.contains A

/-- one pass over an ordering of the rules: a rule may be used once all nonterminals of its right-hand side are done -/
def certPass (G : Grammar) : List Rule → List Nat → Option (List Nat)
  | [], done => some done
  | r :: rs, done => if G.rules.contains r && r.rhs.all (symOk done) then certPass G rs (r.lhs :: done) else none

/-- the certificate: an ordering of rules passes, and afterwards every nonterminal on a right-hand side of `G` is done -/
def productiveB (G : Grammar) (order : List Rule) : Bool :=
  match certPass G order [] with
  | some done => G.rules.all fun r => r.rhs.all (symOk done)
  | none => false

def DoneOk (G : Grammar) (done : List Nat) : Prop := ∀ A ∈ done, ∃ w, DerivesSeq G [Sym.nt A] w

theorem derives_of_all {G : Grammar} {done : List Nat} (hD : DoneOk G done) :
    ∀ (β : List Sym), β.all (symOk done) = true → ∃ w, DerivesSeq G β w := by
  intro β
  induction β with
  | nil => intro _; exact ⟨[], DerivesSeq.nil⟩
  | cons s β ih =>
    intro h
    simp only [List.all_cons, Bool.and_eq_true] at h
    obtain ⟨w2, h2⟩ := ih h.2
    cases s with
    | t a => exact ⟨a :: w2, DerivesSeq.term a _ _ h2⟩
    | nt A =>
      have hA : A ∈ done := by simpa [symOk] using h.1
      obtain ⟨w1, h1⟩ := hD A hA
      have := DerivesSeq.append h1 h2
      exact ⟨w1 ++ w2, by simpa using this⟩

theorem certPass_ok {G : Grammar} : ∀ (order : List Rule) (done done' : List Nat), DoneOk G done →
    certPass G order done = some done' → DoneOk G done' := by
  intro order
  induction order with
  | nil => intro done done' hD h; simp only [certPass, Option.some.injEq] at h; subst h; exact hD
  | cons r rs ih =>
    intro done done' hD h
    simp only [certPass] at h
    split at h
    · rename_i hc
      simp only [Bool.and_eq_true, List.contains_iff_mem] at hc
      obtain ⟨w, hw⟩ := derives_of_all hD r.rhs hc.2
      refine ih (r.lhs :: done) done' ?_ h
      intro A hA
      rcases List.mem_cons.mp hA with rfl | hA
      · exact ⟨w, DerivesSeq.single hc.1 hw⟩
      · exact hD A hA
    · cases h

/-- a grammar with a passing certificate is productive -/
theorem productiveB_sound {G : Grammar} {order : List Rule} (h : productiveB G order = true) : Productive G := by
  unfold productiveB at h
  split at h
  · rename_i done hpass
    have hD : DoneOk G done := certPass_ok order [] done (by intro A hA; cases hA) hpass
    intro r hr
    simp only [List.all_eq_true] at h
    exact derives_of_all hD r.rhs (by simpa [List.all_eq_true] using h r hr)
  · cases h

/-- the executable continuation set of column `i` (what the driver prints and the harness compares with lark's `expected`/`allowed`) -/
def expectedAt (G : Grammar) (L : FLattice) (start i : Nat) : List Nat :=
  ((chart G L start).filter (fun x => x.col = i)).filterMap fun x => match x.rule.rhs[x.dot]? with
    | some (Sym.t a) => some a
    | _ => none

theorem mem_expectedAt_iff (G : Grammar) (L : FLattice) (hL : L.WF) (start i a : Nat) :
    a ∈ expectedAt G L start i ↔ Expected G L.toLattice start i a := by
  simp only [expectedAt, List.mem_filterMap, List.mem_filter, decide_eq_true_eq]
  constructor
  · rintro ⟨c, ⟨hc, hcol⟩, hx⟩
    have hC := (mem_chart_iff G L hL start c).mp hc
    refine ⟨c.rule, c.dot, c.origin, by simpa [CItem.item, hcol] using hC, ?_⟩
    split at hx
    · rename_i b hb; simp only [Option.some.injEq] at hx; subst hx; exact hb
    · cases hx
  · rintro ⟨r, d, k, hC, hd⟩
    have hb := Chart.bounds hL hC
    refine ⟨⟨i, r, d, k⟩, ⟨(mem_chart_iff G L hL start ⟨i, r, d, k⟩).mpr hC, rfl⟩, ?_⟩
    simp [hd]

/-- the executable continuation set is exactly the set of terminals that can legally come next (productive grammars) -/
theorem expectedAt_exact (G : Grammar) (L : FLattice) (hL : L.WF) (start i a : Nat) (order : List Rule)
    (hP : productiveB G order = true) :
    a ∈ expectedAt G L start i ↔ LegalNext G L.toLattice start i a :=
  (mem_expectedAt_iff G L hL start i a).trans (expected_iff_legal (productiveB_sound hP))



/-! ### why productivity is needed: `start: "b" x`, `x: "c" x` — after `b` the chart (and lark) expects `c`, yet no sentence exists at all -/

def badG : Grammar := ⟨[⟨0, [Sym.t 1, Sym.nt 1]⟩, ⟨1, [Sym.t 2, Sym.nt 1]⟩]⟩
def badL : Lattice := ⟨fun a i j => a = 1 ∧ i = 0 ∧ j = 1, fun _ _ => False⟩

theorem badG_no_sentence : ∀ {β : List Sym} {w : List Nat}, DerivesSeq badG β w → Sym.nt 1 ∈ β → False := by
  intro β w h
  induction h with
  | nil => intro hm; cases hm
  | term a rest ts _ ih =>
    intro hm
    rcases List.mem_cons.mp hm with h | h
    · cases h
    · exact ih h
  | nonterm r rest ts1 ts2 hr _ _ ih1 ih2 =>
    intro _
    simp only [badG, List.mem_cons, List.mem_nil_iff, or_false] at hr
    rcases hr with rfl | rfl <;> exact ih1 (by simp)

theorem unproductive_counterexample : Expected badG badL 0 1 2 ∧ ¬ LegalNext badG badL 0 1 2 := by
  constructor
  · have h0 : Chart badG badL 0 0 ⟨⟨0, [Sym.t 1, Sym.nt 1]⟩, 0, 0⟩ := Chart.init _ (by simp [badG]) rfl
    have h1 := Chart.scan 0 1 _ 0 0 1 h0 (by simp) (by simp [badL])
    have h2 := Chart.predict 1 _ 1 0 ⟨1, [Sym.t 2, Sym.nt 1]⟩ h1 (by simp) (by simp [badG])
    exact ⟨_, 0, 1, h2, by simp⟩
  · rintro ⟨u, w, _, hd⟩
    generalize hα : [Sym.nt 0] = α at hd
    generalize u ++ 2 :: w = v at hd
    cases hd with
    | nil => cases hα
    | term => cases hα
    | nonterm r rest ts1 ts2 hr h1 h2 =>
      simp only [badG, List.mem_cons, List.mem_nil_iff, or_false] at hr
      rcases hr with rfl | rfl
      · exact badG_no_sentence h1 (by simp)
      · exact badG_no_sentence h1 (by simp)

-- non-vacuity: `start: "a" start | "b"` is productive, by the certificate
example : productiveB ⟨[⟨0, [Sym.t 0, Sym.nt 0]⟩, ⟨0, [Sym.t 1]⟩]⟩ [⟨0, [Sym.t 1]⟩] = true := by decide

end EarleyProto
