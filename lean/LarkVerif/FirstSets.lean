import LarkVerif.LRComplete
namespace LRProto
open EarleyProto

/-- computed tables (grammar_analysis.py:78 `calculate_sets`), as the harness sends them or the model computes them -/
structure FN where
  nullable : Nat → Bool
  first : Nat → List Nat

def FN.nullableSeq (T : FN) : List Sym → Bool
  | [] => true
  | Sym.t _ :: _ => false
  | Sym.nt A :: rest => T.nullable A && T.nullableSeq rest

def FN.firstSeq (T : FN) : List Sym → List Nat
  | [] => []
  | Sym.t a :: _ => [a]
  | Sym.nt A :: rest => T.first A ++ (if T.nullable A then T.firstSeq rest else [])

/-- the decidable closure check on the tables: they are a pre-fixpoint of the defining equations -/
def FN.closedB (T : FN) (G : Grammar) : Bool :=
  G.rules.all fun r =>
    (!T.nullableSeq r.rhs || T.nullable r.lhs) && (T.firstSeq r.rhs).all (fun c => (T.first r.lhs).contains c)

theorem FN.closed_spec {T : FN} {G : Grammar} (h : T.closedB G = true) :
    ∀ r ∈ G.rules, (T.nullableSeq r.rhs = true → T.nullable r.lhs = true) ∧ (∀ c ∈ T.firstSeq r.rhs, c ∈ T.first r.lhs) := by
  intro r hr
  simp only [FN.closedB, List.all_eq_true, Bool.and_eq_true, Bool.or_eq_true, Bool.not_eq_true',
    List.contains_iff_mem] at h
  obtain ⟨h1, h2⟩ := h r hr
  constructor
  · intro hn; rcases h1 with h1 | h1
    · rw [hn] at h1; cases h1
    · exact h1
  · exact h2

/-- closed tables dominate the semantics: what a string derived from `γ` can start with / whether it can be empty -/
theorem FN.sem {T : FN} {G : Grammar} (h : T.closedB G = true) :
    ∀ {γ : List Sym} {u : List Nat}, DerivesSeq G γ u →
      (u = [] → T.nullableSeq γ = true) ∧ (∀ c rest, u = c :: rest → c ∈ T.firstSeq γ) := by
  intro γ u hd
  induction hd with
  | nil => exact ⟨(fun _ => rfl), (fun c rest h => by cases h)⟩
  | term a rest ts _ _ =>
    refine ⟨(fun h => by cases h), ?_⟩
    intro c rest' h
    simp only [List.cons.injEq] at h
    simp [FN.firstSeq, h.1]
  | nonterm r rest ts1 ts2 hr _ _ ih1 ih2 =>
    obtain ⟨hn, hf⟩ := FN.closed_spec h r hr
    constructor
    · intro hu
      have h1 : ts1 = [] := by cases ts1 <;> simp_all
      have h2 : ts2 = [] := by cases ts2 <;> simp_all
      simp only [FN.nullableSeq, Bool.and_eq_true]
      exact ⟨hn (ih1.1 h1), ih2.1 h2⟩
    · intro c rest' hu
      cases ts1 with
      | nil =>
        simp only [List.nil_append] at hu
        have hnull := hn (ih1.1 rfl)
        simp only [FN.firstSeq, hnull, if_true, List.mem_append]
        exact Or.inr (ih2.2 c rest' hu)
      | cons x xs =>
        simp only [List.cons_append, List.cons.injEq] at hu
        obtain ⟨rfl, _⟩ := hu
        simp only [FN.firstSeq, List.mem_append]
        exact Or.inl (hf _ (ih1.2 x xs rfl))

/-- so the semantic lookahead condition of `TableClosed.closure` follows from a check on computed sets:
    `FIRST(β) ⊆ L'` and `(β nullable → L ⊆ L')` -/
theorem firstOf_of_tables {T : FN} {G : Grammar} (h : T.closedB G = true) (β : List Sym) (L L' : Nat → Prop)
    (hfirst : ∀ c ∈ T.firstSeq β, L' c) (hnull : T.nullableSeq β = true → ∀ c, L c → L' c) :
    ∀ c, FirstOf G β L c → L' c := by
  rintro c ⟨u, hd, hu | ⟨rfl, hL⟩⟩
  · cases u with
    | nil => simp at hu
    | cons x xs =>
      simp only [List.head?_cons, Option.some.injEq] at hu
      subst hu
      exact hfirst _ ((FN.sem h hd).2 x xs rfl)
  · exact hnull ((FN.sem h hd).1 rfl) c hL

end LRProto
