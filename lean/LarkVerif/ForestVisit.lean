/-! # The forest walk (`lark/parsers/earley_forest.py:274 ForestVisitor.visit`)

The code walks the SPPF with an explicit stack of nodes and child iterators, a set `visiting` (= the ids on `path`) and, for
`single_visit=True`, a set `visited`.  A child that is on the path is *not* pushed: `on_cycle` is called instead.  The model below is the
same walk as a structurally recursive function over the list of children still to be handed out by the iterator on top of the stack
(the recursion stack of the model is the `input_stack` of the code).  The SPPF may be cyclic, so the recursion is *not* structural in the
graph: Lean accepts the definition only with the termination measure `(nodes not on the path, children left)`, which is the proof that the
walk terminates on every finite graph, cyclic or not.

The driver runs `visit` on the node graph exported from the real forest and the harness compares the event sequence with the one a logging
subclass of the real `ForestVisitor` produced (op `forest_visit`). -/
namespace VisitProto

structure Graph where
  nodes : List Nat           -- ids of symbol, intermediate and packed nodes
  kids : Nat → List Nat      -- what `visit_*_node_in` hands back, in iteration order (`None` children already dropped)
  isTok : Nat → Bool         -- TokenNode: `visit_token_node`, never entered

inductive Ev where
  | enter (n : Nat)          -- visit_{symbol,intermediate,packed}_node_in
  | leave (n : Nat)          -- visit_{symbol,intermediate,packed}_node_out
  | tok (n : Nat)            -- visit_token_node
  | cycle (n : Nat)          -- on_cycle(node, path)
deriving DecidableEq, Repr

/-- number of graph nodes that are not on the path -/
def remaining (g : Graph) (path : List Nat) : Nat := (g.nodes.filter (fun n => !path.contains n)).length

theorem filter_len_mono (xs : List Nat) (p q : Nat → Bool) (h : ∀ x, p x = true → q x = true) :
    (xs.filter p).length ≤ (xs.filter q).length := by
  induction xs with
  | nil => simp
  | cons x xs ih =>
    simp only [List.filter_cons]
    by_cases hp : p x = true
    · simp only [hp, h x hp, if_true, List.length_cons]; omega
    · simp only [hp]
      by_cases hq : q x = true
      · simp only [hq, if_true, List.length_cons]
        have : (if False then x :: List.filter p xs else List.filter p xs) = List.filter p xs := by simp
        simp only [Bool.false_eq_true]; rw [this]; omega
      · simp only [hq]; simpa using ih

theorem filter_len_lt (ns path : List Nat) (c : Nat) (hc : c ∈ ns) (hp : ¬ c ∈ path) :
    (ns.filter (fun n => !(c :: path).contains n)).length < (ns.filter (fun n => !path.contains n)).length := by
  induction ns with
  | nil => cases hc
  | cons x xs ih =>
    have hmono : (xs.filter (fun n => !(c :: path).contains n)).length ≤ (xs.filter (fun n => !path.contains n)).length :=
      filter_len_mono xs _ _ (by intro n hn; simp only [List.contains_cons, Bool.not_or, Bool.and_eq_true] at hn; exact hn.2)
    by_cases hx : x = c
    · subst hx
      have h1 : (!(x :: path).contains x) = false := by simp
      have h2 : (!path.contains x) = true := by simp [hp]
      rw [List.filter_cons, List.filter_cons, h1, h2]
      simp only [if_true, Bool.false_eq_true, if_false, List.length_cons]
      omega
    · have hc' : c ∈ xs := by
        cases hc with
        | head => exact absurd rfl hx
        | tail _ h => exact h
      have := ih hc'
      by_cases hxp : x ∈ path
      · have h1 : (!(c :: path).contains x) = false := by simp [hxp]
        have h2 : (!path.contains x) = false := by simp [hxp]
        rw [List.filter_cons, List.filter_cons, h1, h2]
        simp only [Bool.false_eq_true, if_false]
        exact this
      · have h1 : (!(c :: path).contains x) = true := by simp [hxp, hx]
        have h2 : (!path.contains x) = true := by simp [hxp]
        rw [List.filter_cons, List.filter_cons, h1, h2]
        simp only [if_true, List.length_cons]
        omega

theorem remaining_lt (g : Graph) (path : List Nat) (c : Nat) (hc : c ∈ g.nodes) (hp : ¬ c ∈ path) :
    remaining g (c :: path) < remaining g path := filter_len_lt g.nodes path c hc hp

/-- the walk below the iterator on top of the stack: `cs` are the children it has not yet handed out.
    Returns the events in order and the new `visited` set. -/
def visitKids (g : Graph) (sv : Bool) (path visited : List Nat) : List Nat → List Ev × List Nat
  | [] => ([], visited)
  | c :: cs =>
    if path.contains c then                      -- `id(next_node) in visiting`: report, do not push
      let r := visitKids g sv path visited cs
      (Ev.cycle c :: r.1, r.2)
    else if g.isTok c then                       -- TokenNode
      let r := visitKids g sv path visited cs
      (Ev.tok c :: r.1, r.2)
    else if sv && visited.contains c then        -- `self.single_visit and current_id in visited`: popped silently
      visitKids g sv path visited cs
    else if h : c ∈ g.nodes then
      let r1 := visitKids g sv (c :: path) visited (g.kids c)
      let r2 := visitKids g sv path (c :: r1.2) cs
      (Ev.enter c :: r1.1 ++ Ev.leave c :: r2.1, r2.2)
    else visitKids g sv path visited cs          -- not a node of the graph (the export never produces this)
termination_by cs => (remaining g path, cs.length)
decreasing_by
  all_goals simp_wf
  · right; omega
  · right; omega
  · right; omega
  · left; rename_i hp _ _; exact remaining_lt g path c h (by simpa using hp)
  · right; omega
  · right; omega

/-- `ForestVisitor.visit(root)` -/
def visit (g : Graph) (sv : Bool) (root : Nat) : List Ev := (visitKids g sv [] [] [root]).1

/-! ## the depth-first discipline -/

/-- replay an event sequence against a path: a node may be entered only while it is not on the path, left only when it is the innermost
    entered node, and `on_cycle` may only name a node that is on the path.  `none` = the discipline is broken. -/
def replay : List Nat → List Ev → Option (List Nat)
  | path, [] => some path
  | path, Ev.enter n :: es => if path.contains n then none else replay (n :: path) es
  | path, Ev.leave n :: es => match path with
      | p :: ps => if p = n then replay ps es else none
      | [] => none
  | path, Ev.tok _ :: es => replay path es
  | path, Ev.cycle n :: es => if path.contains n then replay path es else none

theorem replay_append (path : List Nat) (e1 e2 : List Ev) (p' : List Nat) (h : replay path e1 = some p') :
    replay path (e1 ++ e2) = replay p' e2 := by
  induction e1 generalizing path with
  | nil => simp [replay] at h; subst h; rfl
  | cons e es ih =>
    cases e with
    | enter n =>
      simp only [replay, List.cons_append] at h ⊢
      split at h
      · cases h
      · rename_i hn; simp only [hn]; exact ih _ h
    | leave n =>
      cases path with
      | nil => simp [replay] at h
      | cons p ps =>
        simp only [replay, List.cons_append] at h ⊢
        split at h
        · rename_i hp; simp only [hp, if_true]; exact ih _ h
        · cases h
    | tok n => simp only [replay, List.cons_append] at h ⊢; exact ih _ h
    | cycle n =>
      simp only [replay, List.cons_append] at h ⊢
      split at h
      · rename_i hn; simp only [hn, if_true]; exact ih _ h
      · cases h

/-- **The walk is a proper depth-first walk, on every graph**: its events replay against the path it started from and end with the same path —
    every `in` has its `out`, properly nested; no node is entered while it is on the path; `on_cycle` is called only for nodes on the path. -/
theorem visitKids_replay (g : Graph) (sv : Bool) (path visited : List Nat) (cs : List Nat) :
    replay path (visitKids g sv path visited cs).1 = some path := by
  fun_induction visitKids g sv path visited cs with
  | case1 path visited => simp [replay]
  | case2 path visited c cs hp r ih => simp only [replay, hp, if_true]; exact ih
  | case3 path visited c cs hp ht r ih => simp only [replay]; exact ih
  | case4 path visited c cs hp ht hv ih => exact ih
  | case5 path visited c cs hp ht hv h r1 r2 ih1 ih2 =>
    have hp' : path.contains c = false := by simpa using hp
    show replay path (Ev.enter c :: (r1.1 ++ Ev.leave c :: r2.1)) = some path
    simp only [replay, hp']
    rw [replay_append (c :: path) r1.1 _ (c :: path) ih1]
    simp only [replay, if_true]
    exact ih2
  | case6 path visited c cs hp ht hv h ih => exact ih

theorem visit_is_depth_first (g : Graph) (sv : Bool) (root : Nat) : replay [] (visit g sv root) = some [] :=
  visitKids_replay g sv [] [] [root]

/-! ## single_visit: every node is entered at most once -/

def entered : List Ev → List Nat
  | [] => []
  | Ev.enter n :: es => n :: entered es
  | _ :: es => entered es

theorem entered_append (a b : List Ev) : entered (a ++ b) = entered a ++ entered b := by
  induction a with
  | nil => rfl
  | cons e es ih => cases e <;> simp [entered, ih]

theorem entered_block (c : Nat) (a b : List Ev) : entered (Ev.enter c :: a ++ Ev.leave c :: b) = c :: (entered a ++ entered b) := by
  show entered ((Ev.enter c :: a) ++ (Ev.leave c :: b)) = _
  rw [entered_append]; simp [entered]

/-- what the walk adds to `visited` is what it entered; it enters nothing that is on the path, and (single_visit) nothing already visited -/
theorem visitKids_visited (g : Graph) (sv : Bool) (path visited : List Nat) (cs : List Nat) :
    (∀ n, n ∈ (visitKids g sv path visited cs).2 ↔ n ∈ visited ∨ n ∈ entered (visitKids g sv path visited cs).1) ∧
    (∀ n ∈ entered (visitKids g sv path visited cs).1, ¬ n ∈ path) ∧
    (sv = true → ∀ n ∈ entered (visitKids g sv path visited cs).1, ¬ n ∈ visited) := by
  fun_induction visitKids g sv path visited cs with
  | case1 path visited => simp [entered]
  | case2 path visited c cs hp r ih => simpa [entered] using ih
  | case3 path visited c cs hp ht r ih => simpa [entered] using ih
  | case4 path visited c cs hp ht hv ih => exact ih
  | case5 path visited c cs hp ht hv h r1 r2 ih1 ih2 =>
    obtain ⟨a1, b1, c1⟩ := ih1
    obtain ⟨a2, b2, c2⟩ := ih2
    have hcp : ¬ c ∈ path := by simpa using hp
    rw [entered_block]
    refine ⟨?_, ?_, ?_⟩
    · intro n
      show n ∈ r2.2 ↔ _
      rw [a2 n]
      simp only [List.mem_cons, List.mem_append]
      rw [a1 n]
      constructor
      · rintro ((h | h | h) | h)
        · exact Or.inr (Or.inl h)
        · exact Or.inl h
        · exact Or.inr (Or.inr (Or.inl h))
        · exact Or.inr (Or.inr (Or.inr h))
      · rintro (h | h | h | h)
        · exact Or.inl (Or.inr (Or.inl h))
        · exact Or.inl (Or.inl h)
        · exact Or.inl (Or.inr (Or.inr h))
        · exact Or.inr h
    · intro n hn
      simp only [List.mem_cons, List.mem_append] at hn
      rcases hn with h | h | h
      · subst h; exact hcp
      · intro hnp; exact b1 n h (List.mem_cons_of_mem _ hnp)
      · exact b2 n h
    · intro hsv n hn
      simp only [List.mem_cons, List.mem_append] at hn
      rcases hn with h | h | h
      · subst h; intro hv'; apply hv; simp [hsv, hv']
      · exact c1 hsv n h
      · intro hv'; apply c2 hsv n h; exact List.mem_cons_of_mem _ ((a1 n).2 (Or.inl hv'))
  | case6 path visited c cs hp ht hv h ih => exact ih

/-- **`single_visit=True`: no node is entered twice** (ForestSumVisitor relies on it: every node's priority is computed once). -/
theorem single_visit_enters_once (g : Graph) (path visited : List Nat) (cs : List Nat) :
    (entered (visitKids g true path visited cs).1).Nodup := by
  fun_induction visitKids g true path visited cs with
  | case1 path visited => simp [entered]
  | case2 path visited c cs hp r ih => simpa [entered] using ih
  | case3 path visited c cs hp ht r ih => simpa [entered] using ih
  | case4 path visited c cs hp ht hv ih => exact ih
  | case5 path visited c cs hp ht hv h r1 r2 ih1 ih2 =>
    obtain ⟨a1, b1, _⟩ := visitKids_visited g true (c :: path) visited (g.kids c)
    obtain ⟨_, _, c2⟩ := visitKids_visited g true path (c :: r1.2) cs
    rw [entered_block]
    rw [List.nodup_cons, List.nodup_append]
    refine ⟨?_, ih1, ih2, ?_⟩
    · intro hmem
      rcases List.mem_append.mp hmem with h' | h'
      · exact b1 c h' (List.mem_cons_self ..)
      · exact c2 rfl c h' (List.mem_cons_self ..)
    · intro x hx y hy hxy
      subst hxy
      exact c2 rfl x hy (List.mem_cons_of_mem _ ((a1 x).2 (Or.inr hx)))
  | case6 path visited c cs hp ht hv h ih => exact ih

/-- non-vacuity: a two-node cycle `0 → 1 → 0` with a token below 1 -/
def exGraph : Graph := { nodes := [0, 1], kids := fun n => if n = 0 then [1] else if n = 1 then [2, 0] else [], isTok := fun n => n == 2 }
example : visit exGraph false 0 = [Ev.enter 0, Ev.enter 1, Ev.tok 2, Ev.cycle 0, Ev.leave 1, Ev.leave 0] := by
  simp [visit, visitKids, exGraph]

end VisitProto
