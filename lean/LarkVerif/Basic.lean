namespace Proto

/-- lark/utils.py small_factors, with the search loop made explicit. -/
def findA (n maxFactor : Nat) : Nat → Option (Nat × Nat)
  | 0 => none
  | 1 => none
  | a+1 =>
    let b := n % (a+1)
    if (a+1) + b ≤ maxFactor then some (a+1, b) else findA n maxFactor a

def smallFactors (n maxFactor : Nat) : List (Nat × Nat) :=
  if h : n ≤ maxFactor then [(n, 0)]
  else
    match hf : findA n maxFactor maxFactor with
    | none => []   -- `assert False` in the code
    | some (a, b) =>
      if ha : 2 ≤ a then
        have : n / a < n := Nat.div_lt_self (by omega) ha
        smallFactors (n / a) maxFactor ++ [(a, b)]
      else []
termination_by n

def evalFactors (l : List (Nat × Nat)) : Nat := l.foldl (fun n ab => n * ab.1 + ab.2) 1

theorem findA_spec (n mf : Nat) : ∀ a r, findA n mf a = some r → 2 ≤ r.1 ∧ r.1 ≤ a ∧ r.2 = n % r.1 ∧ r.1 + r.2 ≤ mf := by
  intro a
  induction a with
  | zero => intro r h; simp [findA] at h
  | succ a ih =>
    intro r h
    cases a with
    | zero => simp [findA] at h
    | succ a =>
      simp only [findA] at h
      split at h
      · cases h; refine ⟨by omega, by omega, rfl, by assumption⟩
      · have := ih r h; omega

theorem findA_some (n mf : Nat) (hmf : 2 < mf) : ∀ a, 2 ≤ a → ∃ r, findA n mf a = some r := by
  intro a
  induction a with
  | zero => intro h; omega
  | succ a ih =>
    intro h
    cases a with
    | zero => omega
    | succ a =>
      simp only [findA]
      split
      · exact ⟨_, rfl⟩
      · cases a with
        | zero =>
          exfalso
          have : n % 2 < 2 := Nat.mod_lt _ (by omega)
          omega
        | succ a => exact ih (by omega)

theorem evalFactors_append (l : List (Nat × Nat)) (a b : Nat) :
    evalFactors (l ++ [(a,b)]) = evalFactors l * a + b := by
  simp [evalFactors, List.foldl_append]

theorem smallFactors_correct (mf : Nat) (hmf : 2 < mf) (n : Nat) :
    evalFactors (smallFactors n mf) = n := by
  induction n using Nat.strongRecOn with
  | _ n ih =>
    unfold smallFactors
    split
    · simp [evalFactors]
    · rename_i hn
      obtain ⟨r, hr⟩ := findA_some n mf hmf mf (by omega)
      have hs := findA_spec n mf mf r hr
      split
      · rename_i h; rw [hr] at h; cases h
      · rename_i a b h
        rw [hr] at h; cases h
        simp only at hs
        split
        · rw [evalFactors_append, ih (n / a) (Nat.div_lt_self (by omega) (by omega))]
          rw [hs.2.2.1]; rw [Nat.mul_comm]; exact Nat.div_add_mod n a
        · omega
end Proto
