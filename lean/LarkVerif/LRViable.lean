import LarkVerif.LR
import LarkVerif.LRError
import LarkVerif.LRComplete
import LarkVerif.LR0Viable
/-! # The LALR driver has the correct-prefix property (C08: "every terminal in `accepts` can legally come next"; errors at the first offending token)

`LR0Viable` speaks about paths of the LR(0) automaton; here the driver model of `LR.lean` is linked to it: the state stack of every configuration
the driver reaches is such a path, spelled by the symbols of its value stack (`StackPath.reach`).  Hence, for a table whose transitions are those
of an automaton passing `checkLR0` over a productive grammar, **whatever the driver has consumed is a prefix of a sentence**
(`consumed_is_viable_prefix`) — in particular after the shift that ends a successful `feed_token`: a token the driver accepts (what `accepts()`
finds by trial feeding) can legally come next (`fed_token_is_legal`).  The lookahead sets play no role: the statement holds for every choice of
reduce actions that passes `TableSafe`. -/
namespace LRProto
open EarleyProto LR0

/-- the table's shift and goto entries are transitions of the automaton -/
def TableOf (T : Table) (A : Auto) : Prop := ∀ p X q, T.trans p X q → (p, X, q) ∈ A.trans

theorem StackPath.reach {T : Table} {A : Auto} (hTA : TableOf T A) {ss vs} (h : StackPath T ss vs) :
    ∃ q rest, ss = q :: rest ∧ Reach A T.start (vs.map (·.1)).reverse q := by
  induction h with
  | base => exact ⟨T.start, [], rfl, by simpa using Reach.nil⟩
  | push q p ss X y vs _ ht ih =>
    obtain ⟨q0, rest, heq, hr⟩ := ih
    simp only [List.cons.injEq] at heq
    obtain ⟨rfl, _⟩ := heq
    refine ⟨q, p :: ss, rfl, ?_⟩
    have := Reach.step _ p X q hr (hTA p X q ht)
    simpa using this

/-- **Correct-prefix property of the driver.** -/
theorem consumed_is_viable_prefix {G : Grammar} {T : Table} {A : Auto} {start : Nat} (h : checkLR0 G A = true) (hP : Productive G)
    (h0 : T.start < A.items.length) (hstart : ∀ x ∈ A.kernelOf T.start, x.2 = 0 ∧ x.1.lhs = start ∧ x.1 ∈ G.rules)
    (hne : ∀ q, q < A.items.length → A.kernelOf q ≠ []) (hTA : TableOf T A)
    {cfg : Config} {consumed : List Nat} (hinv : Inv G T cfg consumed) :
    ∃ w, DerivesSeq G [Sym.nt start] (consumed ++ w) := by
  obtain ⟨q, rest, _, hr⟩ := hinv.path.reach hTA
  have hq := hr.lt h h0
  cases hk : A.kernelOf q with
  | nil => exact absurd hk (hne q hq)
  | cons y ys =>
    have hy : y ∈ A.itemsOf q := ((checkLR0_sound G A h).1 q hq y).mpr (Closure.kernel y (by rw [hk]; exact List.mem_cons_self ..))
    obtain ⟨hmem, δ, hγ, hctx⟩ := item_valid h hP h0 hstart hr y hy
    have hu : DerivesSeq G (cfg.vals.map (·.1)).reverse consumed := by
      have := derives_yieldOf (G := G) cfg.vals hinv.derives
      rw [hinv.yield] at this; exact this
    rw [hγ] at hu
    obtain ⟨u1, u2, rfl, h1, h2⟩ := hu.split
    obtain ⟨wβ, hβ⟩ := hP.tail hmem y.2
    have hrhs : DerivesSeq G y.1.rhs (u2 ++ wβ) := by
      have := DerivesSeq.append h2 hβ
      rwa [List.take_append_drop] at this
    obtain ⟨w, hw⟩ := hctx u1 _ h1 (DerivesSeq.single hmem hrhs)
    exact ⟨wβ ++ w, by simpa [List.append_assoc] using hw⟩

/-- **A token the driver accepts can legally come next**: if `feed_token` (any reductions, then the shift) succeeds on `t`, some sentence
    begins with the consumed input followed by `t`. -/
theorem fed_token_is_legal {G : Grammar} {T : Table} {A : Auto} {s0 start : Nat} (hT : TableSafe G T s0) (h : checkLR0 G A = true)
    (hP : Productive G) (h0 : T.start < A.items.length) (hstart : ∀ x ∈ A.kernelOf T.start, x.2 = 0 ∧ x.1.lhs = start ∧ x.1 ∈ G.rules)
    (hne : ∀ q, q < A.items.length → A.kernelOf q ≠ []) (hTA : TableOf T A)
    {cfg cfg' : Config} {consumed : List Nat} (hinv : Inv G T cfg consumed) {t fuel : Nat}
    (hfeed : reduceLoop T t false fuel cfg = Outcome.shifted cfg') :
    ∃ w, DerivesSeq G [Sym.nt start] (consumed ++ t :: w) := by
  have hinv' := (reduceLoop_sound hT t false fuel cfg consumed hinv).1 cfg' hfeed
  obtain ⟨w, hw⟩ := consumed_is_viable_prefix h hP h0 hstart hne hTA hinv'
  exact ⟨w, by simpa [List.append_assoc] using hw⟩

/-- the same for a whole token prefix fed from the initial configuration -/
theorem fed_prefix_is_viable {G : Grammar} {T : Table} {A : Auto} {s0 start : Nat} (hT : TableSafe G T s0) (h : checkLR0 G A = true)
    (hP : Productive G) (h0 : T.start < A.items.length) (hstart : ∀ x ∈ A.kernelOf T.start, x.2 = 0 ∧ x.1.lhs = start ∧ x.1 ∈ G.rules)
    (hne : ∀ q, q < A.items.length → A.kernelOf q ≠ []) (hTA : TableOf T A) (fuel : Nat) :
    ∀ (toks : List Nat) (cfg : Config) (consumed : List Nat), Inv G T cfg consumed →
      ∀ cfg', (toks.foldlM (fun c t => match reduceLoop T t false fuel c with | Outcome.shifted c' => some c' | _ => none) cfg) = some cfg' →
      ∃ w, DerivesSeq G [Sym.nt start] (consumed ++ toks ++ w) := by
  intro toks
  induction toks with
  | nil =>
    intro cfg consumed hinv cfg' _
    simpa using consumed_is_viable_prefix h hP h0 hstart hne hTA hinv
  | cons t ts ih =>
    intro cfg consumed hinv cfg' hf
    simp only [List.foldlM_cons, Option.bind_eq_bind] at hf
    cases hres : reduceLoop T t false fuel cfg with
    | shifted c1 =>
      rw [hres] at hf
      simp only [Option.bind_some] at hf
      have hinv' := (reduceLoop_sound hT t false fuel cfg consumed hinv).1 c1 hres
      obtain ⟨w, hw⟩ := ih c1 (consumed ++ [t]) hinv' cfg' hf
      exact ⟨w, by simpa [List.append_assoc] using hw⟩
    | accept v => rw [hres] at hf; simp at hf
    | error => rw [hres] at hf; simp at hf
    | crash => rw [hres] at hf; simp at hf
    | loop => rw [hres] at hf; simp at hf

/-- the invariant along `feedAll` -/
theorem feedAll_inv {G : Grammar} {T : Table} {s0 : Nat} (hT : TableSafe G T s0) (F : Nat) :
    ∀ (toks : List Nat) (cfg cfg' : Config) (consumed : List Nat), Inv G T cfg consumed →
      feedAll T F cfg toks = Outcome.shifted cfg' → Inv G T cfg' (consumed ++ toks) := by
  intro toks
  induction toks with
  | nil =>
    intro cfg cfg' consumed hinv h
    simp only [feedAll, Outcome.shifted.injEq] at h
    subst h; simpa using hinv
  | cons t ts ih =>
    intro cfg cfg' consumed hinv h
    simp only [feedAll] at h
    cases hres : reduceLoop T t false F cfg with
    | shifted c1 =>
      rw [hres] at h
      have hinv' := (reduceLoop_sound hT t false F cfg consumed hinv).1 c1 hres
      have := ih c1 cfg' (consumed ++ [t]) hinv' h
      simpa [List.append_assoc] using this
    | accept v => exact absurd hres (reduceLoop_no_accept T t F cfg v)
    | error => rw [hres] at h; cases h
    | crash => rw [hres] at h; cases h
    | loop => rw [hres] at h; cases h

/-- **`UnexpectedToken` is raised no later than at the first offending token**: a token prefix the driver consumes without raising begins a sentence. -/
theorem consumed_prefix_begins_sentence {G : Grammar} {T : Table} {A : Auto} {s0 start : Nat} (hT : TableSafe G T s0) (h : checkLR0 G A = true)
    (hP : Productive G) (h0 : T.start < A.items.length) (hstart : ∀ x ∈ A.kernelOf T.start, x.2 = 0 ∧ x.1.lhs = start ∧ x.1 ∈ G.rules)
    (hne : ∀ q, q < A.items.length → A.kernelOf q ≠ []) (hTA : TableOf T A) (F : Nat) (pre : List Nat) (cfg' : Config)
    (hfeed : feedAll T F ⟨[T.start], []⟩ pre = Outcome.shifted cfg') :
    ∃ w, DerivesSeq G [Sym.nt start] (pre ++ w) := by
  have hinv0 : Inv G T ⟨[T.start], []⟩ [] := ⟨StackPath.base, by simp, rfl⟩
  have hinv := feedAll_inv hT F pre _ cfg' [] hinv0 hfeed
  simpa using consumed_is_viable_prefix h hP h0 hstart hne hTA hinv

/-- at the end of input the driver never shifts -/
theorem reduceLoop_end_no_shift (T : Table) (t : Nat) : ∀ fuel cfg cfg',
    reduceLoop T t true fuel cfg ≠ Outcome.shifted cfg' := by
  intro fuel
  induction fuel with
  | zero => intro cfg cfg'; simp [reduceLoop]
  | succ f ih =>
    intro cfg cfg'
    unfold reduceLoop
    split
    · simp
    · split
      · simp
      · simp
      · simp only
        split
        · simp
        · split
          · simp
          · split
            · simp
            · exact ih _ cfg'

/-- **Everything `accepts()` returns can legally come next**: a terminal other than `$END` begins a continuation of the consumed input to a
    sentence; `$END` is in it only if the consumed input *is* a sentence. -/
theorem accepts_are_legal {G : Grammar} {T : Table} {A : Auto} {s0 start : Nat} (hT : TableSafe G T s0) (h : checkLR0 G A = true)
    (hP : Productive G) (h0 : T.start < A.items.length) (hstart : ∀ x ∈ A.kernelOf T.start, x.2 = 0 ∧ x.1.lhs = start ∧ x.1 ∈ G.rules)
    (hne : ∀ q, q < A.items.length → A.kernelOf q ≠ []) (hTA : TableOf T A)
    {cfg : Config} {consumed : List Nat} (hinv : Inv G T cfg consumed) (terms : List Nat) (eof fuel t : Nat)
    (ht : t ∈ acceptsOf T terms eof fuel cfg) :
    (t ≠ eof → ∃ w, DerivesSeq G [Sym.nt start] (consumed ++ t :: w)) ∧ (t = eof → DerivesSeq G [Sym.nt s0] consumed) := by
  have hok : feedOK T eof fuel cfg t = true := by
    unfold acceptsOf at ht
    exact (List.mem_filter.mp ht).2
  unfold feedOK at hok
  constructor
  · intro hne'
    have hb : (t == eof) = false := by simpa using hne'
    rw [hb] at hok
    cases hres : reduceLoop T t false fuel cfg with
    | shifted cfg' => exact fed_token_is_legal hT h hP h0 hstart hne hTA hinv hres
    | accept v => exact absurd hres (reduceLoop_no_accept T t fuel cfg v)
    | error => rw [hres] at hok; cases hok
    | crash => rw [hres] at hok; cases hok
    | loop => rw [hres] at hok; cases hok
  · intro heq
    have hb : (t == eof) = true := by simpa using heq
    rw [hb] at hok
    cases hres : reduceLoop T t true fuel cfg with
    | shifted cfg' => exact absurd hres (reduceLoop_end_no_shift T t fuel cfg cfg')
    | accept v => exact ((reduceLoop_sound hT t true fuel cfg consumed hinv).2 v hres).2.2
    | error => rw [hres] at hok; cases hok
    | crash => rw [hres] at hok; cases hok
    | loop => rw [hres] at hok; cases hok

end LRProto
