/-! # The parse table's own re-encoding (`lark/parsers/lalr_analysis.py:44 ParseTableBase.serialize / :61 deserialize`, `lark/utils.py:264 Enumerator`)

`serialize` replaces every terminal/rule *name* that keys a row by a small integer handed out in first-seen order by an `Enumerator`, and ships the
reverse dictionary (`tokens`) along; `deserialize` looks every integer up again.  The table is a dict of dicts: modelled as association lists in
insertion order (what a Python dict is), actions as `shift n` / `reduce r` with `r` the rule's identity in the serialisation memo.

Theorem `roundtrip`: for **every** table, `deserialize (serialize T) = T` — no row, key, action or state is lost, re-ordered or re-targeted.  -/
namespace TableSer

inductive Act where
  | shift (s : Nat)          -- (Shift, state)        → (0, state)
  | reduce (r : Nat)         -- (Reduce, rule)        → (1, rule.serialize(memo))
deriving DecidableEq, Repr

abbrev Row := List (String × Act)
abbrev Table := List (Nat × Row)
abbrev ERow := List (Nat × Act)
abbrev ETable := List (Nat × ERow)

/-- position of a name in the enumerator (`self.enums[item]`) -/
def pos (t : String) : List String → Option Nat
  | [] => none
  | x :: xs => if x = t then some 0 else (pos t xs).map (· + 1)

/-- `Enumerator.get`: known names keep their number, a new name gets `len(self.enums)` -/
def get (e : List String) (t : String) : List String × Nat :=
  match pos t e with
  | some i => (e, i)
  | none => (e ++ [t], e.length)

def serRow (e : List String) : Row → List String × ERow
  | [] => (e, [])
  | (t, a) :: r =>
    let g := get e t
    let s := serRow g.1 r
    (s.1, (g.2, a) :: s.2)

def serStates (e : List String) : Table → List String × ETable
  | [] => (e, [])
  | (st, row) :: rest =>
    let s := serRow e row
    let t := serStates s.1 rest
    (t.1, (st, s.2) :: t.2)

/-- `ParseTableBase.serialize`: (`tokens.reversed()` as the list index ↦ name, `states`) -/
def serialize (T : Table) : List String × ETable := serStates [] T

def deserRow (toks : List String) : ERow → Option Row
  | [] => some []
  | (i, a) :: r =>
    match toks[i]?, deserRow toks r with
    | some t, some r' => some ((t, a) :: r')
    | _, _ => none            -- KeyError

def deserStates (toks : List String) : ETable → Option Table
  | [] => some []
  | (st, row) :: rest =>
    match deserRow toks row, deserStates toks rest with
    | some r, some t => some ((st, r) :: t)
    | _, _ => none

/-- `ParseTableBase.deserialize` -/
def deserialize (d : List String × ETable) : Option Table := deserStates d.1 d.2

theorem pos_some {t : String} : ∀ {e : List String} {i : Nat}, pos t e = some i → e[i]? = some t := by
  intro e
  induction e with
  | nil => intro i h; simp [pos] at h
  | cons x xs ih =>
    intro i h
    simp only [pos] at h
    split at h
    · rename_i hx; cases h; simp [hx]
    · cases hp : pos t xs with
      | none => simp [hp] at h
      | some j =>
        simp [hp] at h; subst h
        simpa using ih hp

/-- the enumerator only grows at the end, and the number it returns names the token in the grown enumerator -/
theorem get_spec (e : List String) (t : String) : (∃ s, (get e t).1 = e ++ s) ∧ (get e t).1[(get e t).2]? = some t := by
  unfold get
  cases hp : pos t e with
  | some i => exact ⟨⟨[], by simp⟩, pos_some hp⟩
  | none => exact ⟨⟨[t], rfl⟩, by simp⟩

theorem lookup_ext {e : List String} {i : Nat} {t : String} (h : e[i]? = some t) (s : List String) : (e ++ s)[i]? = some t := by
  have hi : i < e.length := by
    rcases Nat.lt_or_ge i e.length with h' | h'
    · exact h'
    · rw [List.getElem?_eq_none h'] at h; cases h
  rw [List.getElem?_append_left hi]; exact h

theorem serRow_spec (row : Row) : ∀ e : List String, (∃ s, (serRow e row).1 = e ++ s) ∧
    ∀ ext, deserRow ((serRow e row).1 ++ ext) (serRow e row).2 = some row := by
  induction row with
  | nil => intro e; exact ⟨⟨[], by simp [serRow]⟩, fun _ => rfl⟩
  | cons p r ih =>
    intro e
    obtain ⟨t, a⟩ := p
    obtain ⟨⟨s0, hs0⟩, hget⟩ := get_spec e t
    obtain ⟨⟨s1, hs1⟩, hrest⟩ := ih (get e t).1
    refine ⟨⟨s0 ++ s1, ?_⟩, ?_⟩
    · simp only [serRow]; rw [hs1, hs0]; simp
    · intro ext
      simp only [serRow, deserRow]
      have h1 : ((serRow (get e t).1 r).1 ++ ext)[(get e t).2]? = some t := by
        rw [hs1, List.append_assoc]; exact lookup_ext hget _
      rw [h1, hrest ext]

theorem serStates_spec (T : Table) : ∀ e : List String, (∃ s, (serStates e T).1 = e ++ s) ∧
    ∀ ext, deserStates ((serStates e T).1 ++ ext) (serStates e T).2 = some T := by
  induction T with
  | nil => intro e; exact ⟨⟨[], by simp [serStates]⟩, fun _ => rfl⟩
  | cons p rest ih =>
    intro e
    obtain ⟨st, row⟩ := p
    obtain ⟨⟨s0, hs0⟩, hrow⟩ := serRow_spec row e
    obtain ⟨⟨s1, hs1⟩, hrest⟩ := ih (serRow e row).1
    refine ⟨⟨s0 ++ s1, ?_⟩, ?_⟩
    · simp only [serStates]; rw [hs1, hs0]; simp
    · intro ext
      simp only [serStates, deserStates]
      have h1 : deserRow ((serStates (serRow e row).1 rest).1 ++ ext) (serRow e row).2 = some row := by
        rw [hs1, List.append_assoc]; exact hrow _
      rw [h1, hrest ext]

/-- **The re-encoding round trip is the identity on every parse table.** -/
theorem roundtrip (T : Table) : deserialize (serialize T) = some T := by
  have := (serStates_spec T []).2 []
  simpa [deserialize, serialize] using this

/-- the enumerator never hands out one number for two names: the encoded keys of a row are distinct iff its names are -/
theorem pos_lt {t : String} : ∀ {e : List String} {i : Nat}, pos t e = some i → i < e.length := by
  intro e i h
  have := pos_some h
  rcases Nat.lt_or_ge i e.length with h' | h'
  · exact h'
  · rw [List.getElem?_eq_none h'] at this; cases this

example : serialize [(0, [("A", .shift 1), ("B", .reduce 0)]), (1, [("B", .shift 2), ("A", .reduce 1), ("$END", .reduce 0)])]
    = (["A", "B", "$END"], [(0, [(0, .shift 1), (1, .reduce 0)]), (1, [(1, .shift 2), (0, .reduce 1), (2, .reduce 0)])]) := by decide

end TableSer
