import LarkVerif.LexEmit
/-! C07: tiling theorem for the *contextual* lexer model `lexCtx` (`ContextualLexer.lex`: one `next_token` of the sub-lexer of the parser's current
    state per emitted token).  Between two emitted tokens the state — hence the sub-lexer — is fixed, so the run decomposes into stretches
    "ignored pieces of sub-lexer k, then one emitted piece of sub-lexer k"; every piece, ignored or emitted, is the first terminal of *that
    sub-lexer's* scan list matching at its start (same rule as the basic lexer, restricted to the state's terminals), and the pieces are
    consecutive and non-empty.  The error clause: `lexCtx` stops exactly where, after skipping that sub-lexer's ignored pieces, nothing of its
    scan list matches; it reports `UnexpectedToken` iff the root (basic) lexer finds a token there. -/
namespace LexModel
open LexProto

/-- `p` is a piece the sub-lexer over `subset` produces at its start: first match of its scan list, keyword retyping, ignore flag -/
def PieceOf (L : Lexer) (F : Facts) (subset : List Nat) (pc : Piece') : Prop :=
  ∃ t, firstMatch F.mt pc.2.1 (L.scanList (L.sorted subset)) = some (t, pc.2.2.1) ∧
       pc.1 = L.retype F (L.sorted subset) t pc.2.1 pc.2.2.1 ∧ pc.2.2.2 = L.ignore.contains pc.1

theorem Tiles'.append {p q r : Nat} {a b : List Piece'} (h1 : Tiles' p a q) (h2 : Tiles' q b r) : Tiles' p (a ++ b) r := by
  induction h1 with
  | nil => simpa using h2
  | cons ty p len ig ps q hl _ ih => exact Tiles'.cons ty p len ig _ _ hl (ih h2)

/-- one `next_token`: the ignored pieces it skips and the piece it returns tile the text from `pos` to `pos'` -/
theorem nextToken_tiles (L : Lexer) (F : Facts) (subset : List Nat) (n : Nat)
    (hpos : ∀ t p len, F.mt t p = some len → 0 < len ∧ p + len ≤ n) :
    ∀ g pos, pos ≤ n →
      match L.nextToken F subset n g pos with
      | .ok (some (pc, pos')) =>
          ∃ skipped : List Piece', Tiles' pos (skipped ++ [(pc.1, pc.2.1, pc.2.2, false)]) pos' ∧ pos' ≤ n ∧
            (∀ p ∈ skipped, p.2.2.2 = true ∧ PieceOf L F subset p) ∧ PieceOf L F subset (pc.1, pc.2.1, pc.2.2, false)
      | .error (.chars p allowed) =>
          ∃ skipped : List Piece', Tiles' pos skipped p ∧ p < n ∧ (∀ q ∈ skipped, q.2.2.2 = true ∧ PieceOf L F subset q) ∧
            firstMatch F.mt p (L.scanList (L.sorted subset)) = none ∧ allowed = L.allowed subset
      | .error (.token _ _ _ _) => False
      | .ok none => True := by
  intro g
  induction g with
  | zero => intro pos _; simp [Lexer.nextToken]
  | succ g ih =>
    intro pos h1
    simp only [Lexer.nextToken]
    by_cases hlt : pos < n
    · simp only [hlt, if_true]
      cases hfm : firstMatch F.mt pos (L.scanList (L.sorted subset)) with
      | none =>
        simp only
        exact ⟨[], Tiles'.nil _, hlt, by simp, hfm, rfl⟩
      | some tl =>
        obtain ⟨t, len⟩ := tl
        obtain ⟨hl0, hle⟩ := hpos t pos len (firstMatch_some hfm).2
        have hmax : max len 1 = len := by omega
        simp only [hmax]
        by_cases hig : L.ignore.contains (L.retype F (L.sorted subset) t pos len) = true
        · simp only [hig, if_true]
          have hthis : PieceOf L F subset (L.retype F (L.sorted subset) t pos len, pos, len, true) := ⟨t, hfm, rfl, hig.symm⟩
          have := ih (pos + len) hle
          cases hnt : L.nextToken F subset n g (pos + len) with
          | error e =>
            rw [hnt] at this
            cases e with
            | chars p allowed =>
              simp only at this ⊢
              obtain ⟨sk, ht, hp, hall, hnone, hal⟩ := this
              refine ⟨(L.retype F (L.sorted subset) t pos len, pos, len, true) :: sk, Tiles'.cons _ pos len _ _ _ hl0 ht, hp, ?_, hnone, hal⟩
              intro q hq
              rcases List.mem_cons.mp hq with rfl | hq
              · exact ⟨rfl, hthis⟩
              · exact hall q hq
            | token a b c d => simp only at this
          | ok o =>
            cases o with
            | none => simp
            | some pp =>
              obtain ⟨pc, pos'⟩ := pp
              rw [hnt] at this
              simp only at this ⊢
              obtain ⟨sk, ht, hp, hall, hpc⟩ := this
              refine ⟨(L.retype F (L.sorted subset) t pos len, pos, len, true) :: sk, Tiles'.cons _ pos len _ _ _ hl0 ht, hp, ?_, hpc⟩
              intro q hq
              rcases List.mem_cons.mp hq with rfl | hq
              · exact ⟨rfl, hthis⟩
              · exact hall q hq
        · simp only [hig, Bool.false_eq_true, if_false]
          have hig' : L.ignore.contains (L.retype F (L.sorted subset) t pos len) = false := by simpa using hig
          refine ⟨[], ?_, hle, by simp, ⟨t, hfm, rfl, hig'.symm⟩⟩
          exact Tiles'.cons _ pos len _ _ _ hl0 (Tiles'.nil _)
    · simp [hlt]

/-- stretches of a contextual run: `(k-th sub-lexer's skipped pieces, emitted piece)` per emitted token -/
inductive CtxTiles (L : Lexer) (F : Facts) : List (List Nat) → Nat → List Piece → Nat → Prop
  | nil (subs p) : CtxTiles L F subs p [] p
  | cons (sub subs p p' q pc ps) (skipped : List Piece') :
      Tiles' p (skipped ++ [(pc.1, pc.2.1, pc.2.2, false)]) p' →
      (∀ x ∈ skipped, x.2.2.2 = true ∧ PieceOf L F sub x) → PieceOf L F sub (pc.1, pc.2.1, pc.2.2, false) →
      CtxTiles L F subs p' ps q → CtxTiles L F (sub :: subs) p (pc :: ps) q

/-- how a contextual run ended, given the position `q` after the last emitted token and the remaining sub-lexers -/
def CtxEnd (L : Lexer) (F : Facts) (all : List Nat) (n : Nat) (subs : List (List Nat)) (q : Nat) : Option LexErr → Prop
  | none => True                                  -- end of text (or the driver stopped asking)
  | some (.chars p allowed) =>                    -- UnexpectedCharacters at `p`: neither the state's sub-lexer nor the root lexer has a match there
      ∃ sub rest skipped, subs = sub :: rest ∧ Tiles' q skipped p ∧ p < n ∧ (∀ x ∈ skipped, x.2.2.2 = true ∧ PieceOf L F sub x) ∧
        firstMatch F.mt p (L.scanList (L.sorted sub)) = none ∧ allowed = L.allowed sub ∧
        (∀ pc pos', L.nextToken F all n (n + 1) p ≠ .ok (some (pc, pos')))
  | some (.token ty p' len allowed) =>            -- UnexpectedToken: the root lexer does find a token where the state's sub-lexer is stuck
      ∃ sub rest skipped p, subs = sub :: rest ∧ Tiles' q skipped p ∧ p < n ∧ (∀ x ∈ skipped, x.2.2.2 = true ∧ PieceOf L F sub x) ∧
        firstMatch F.mt p (L.scanList (L.sorted sub)) = none ∧ allowed = L.allowed sub ∧
        ∃ pos', L.nextToken F all n (n + 1) p = .ok (some ((ty, p', len), pos'))

/-- **Tiling of the contextual lexer model.** -/
theorem lexCtx_tiles (L : Lexer) (F : Facts) (all : List Nat) (n : Nat)
    (hpos : ∀ t p len, F.mt t p = some len → 0 < len ∧ p + len ≤ n) :
    ∀ subs pos, pos ≤ n →
      ∃ q used rest, subs = used ++ rest ∧ used.length = (L.lexCtx F all n subs pos).1.length ∧
        CtxTiles L F used pos (L.lexCtx F all n subs pos).1 q ∧ q ≤ n ∧ CtxEnd L F all n rest q (L.lexCtx F all n subs pos).2 := by
  intro subs
  induction subs with
  | nil => intro pos h; exact ⟨pos, [], [], rfl, by simp [Lexer.lexCtx], by simpa [Lexer.lexCtx] using CtxTiles.nil [] pos, h, by simp [Lexer.lexCtx, CtxEnd]⟩
  | cons sub subs ih =>
    intro pos h
    have hnt := nextToken_tiles L F sub n hpos (n + 1) pos h
    simp only [Lexer.lexCtx]
    cases hres : L.nextToken F sub n (n + 1) pos with
    | ok o =>
      cases o with
      | none => exact ⟨pos, [], sub :: subs, rfl, by simp, CtxTiles.nil _ _, h, by simp [CtxEnd]⟩
      | some pp =>
        obtain ⟨pc, pos'⟩ := pp
        rw [hres] at hnt
        simp only at hnt ⊢
        obtain ⟨sk, ht, hp', hall, hpc⟩ := hnt
        obtain ⟨q, used, rest, hsub, hlen, hct, hq, hend⟩ := ih pos' hp'
        exact ⟨q, sub :: used, rest, by simp [hsub], by simp [hlen], CtxTiles.cons sub used pos pos' q pc _ sk ht hall hpc hct, hq, hend⟩
    | error e =>
      rw [hres] at hnt
      cases e with
      | token a b c d => simp only at hnt
      | chars p allowed =>
        simp only at hnt ⊢
        obtain ⟨sk, ht, hp, hall, hnone, hal⟩ := hnt
        cases hroot : L.nextToken F all n (n + 1) p with
        | error e' =>
          refine ⟨pos, [], sub :: subs, rfl, by simp, CtxTiles.nil _ _, h, ?_⟩
          simp only [CtxEnd]
          exact ⟨sub, subs, sk, rfl, ht, hp, hall, hnone, hal, by intro pc pos' hc; rw [hroot] at hc; cases hc⟩
        | ok o =>
          cases o with
          | none =>
            refine ⟨pos, [], sub :: subs, rfl, by simp, CtxTiles.nil _ _, h, ?_⟩
            simp only [CtxEnd]
            exact ⟨sub, subs, sk, rfl, ht, hp, hall, hnone, hal, by intro pc pos' hc; rw [hroot] at hc; cases hc⟩
          | some pp =>
            obtain ⟨⟨ty, q', len⟩, pos'⟩ := pp
            refine ⟨pos, [], sub :: subs, rfl, by simp, CtxTiles.nil _ _, h, ?_⟩
            simp only [CtxEnd]
            exact ⟨sub, subs, sk, p, rfl, ht, hp, hall, hnone, hal, pos', hroot⟩

end LexModel
