import LarkVerif.Basic
namespace Proto

/-! Count-set semantics of the helper rules `EBNF_to_BNF._generate_repeats` creates (load_grammar.py:315).
    A rule built only from `atom` denotes the set of numbers of atoms it can match. -/

abbrev CSet := Nat → Prop

def single (n : Nat) : CSet := fun k => k = n
def upto (h : Nat) : CSet := fun k => k ≤ h

/-- `S` repeated `i` times in sequence -/
def pow (S : CSet) : Nat → CSet
  | 0 => single 0
  | i+1 => fun k => ∃ x y, S x ∧ pow S i y ∧ k = x + y

/-- load_grammar.py:258 `_add_repeat_rule`: `target * a  atom * b` -/
def repeatRule (a b : Nat) (target atom : CSet) : CSet :=
  fun k => ∃ x y, pow target a x ∧ pow atom b y ∧ k = x + y

/-- load_grammar.py:278 `_add_repeat_opt_rule`:
    `target*i target_opt` for i < a, and `target*a atom*i` for i < b -/
def repeatOptRule (a b : Nat) (target opt atom : CSet) : CSet :=
  fun k => (∃ i, i < a ∧ ∃ x y, pow target i x ∧ opt y ∧ k = x + y) ∨
           (∃ i, i < b ∧ ∃ x y, pow target a x ∧ pow atom i y ∧ k = x + y)

theorem pow_single (n : Nat) : ∀ i k, pow (single n) i k ↔ k = i * n := by
  intro i
  induction i with
  | zero => intro k; simp [pow, single]
  | succ i ih =>
    intro k
    simp only [pow, single]
    constructor
    · rintro ⟨x, y, rfl, hy, rfl⟩
      rw [(ih y).mp hy, Nat.succ_mul]; omega
    · intro h
      exact ⟨n, i * n, rfl, (ih _).mpr rfl, by rw [h, Nat.succ_mul]; omega⟩

theorem repeatRule_single (a b n : Nat) : ∀ k, repeatRule a b (single n) (single 1) k ↔ k = a * n + b := by
  intro k
  simp only [repeatRule, pow_single]
  constructor
  · rintro ⟨x, y, rfl, rfl, rfl⟩; omega
  · intro h; exact ⟨a * n, b * 1, rfl, rfl, by omega⟩

/-- the optional helper covers exactly `0 .. a*n+b-1` when its inner helper covers `0 .. n-1` -/
theorem repeatOptRule_upto (a b n : Nat) (hn : 1 ≤ n) (ha : 1 ≤ a) :
    ∀ k, repeatOptRule a b (single n) (upto (n-1)) (single 1) k ↔ k ≤ a * n + b - 1 := by
  intro k
  simp only [repeatOptRule, pow_single, upto]
  constructor
  · rintro (⟨i, hi, x, y, rfl, hy, rfl⟩ | ⟨i, hi, x, y, rfl, rfl, rfl⟩)
    · have h1 : i * n + n ≤ a * n := by
        have : (i + 1) * n ≤ a * n := Nat.mul_le_mul_right n (by omega)
        rw [Nat.succ_mul] at this; exact this
      omega
    · omega
  · intro hk
    have han : 1 ≤ a * n := by
      have : 1 * 1 ≤ a * n := Nat.mul_le_mul ha hn
      omega
    by_cases hlt : k < a * n
    · left
      refine ⟨k / n, (Nat.div_lt_iff_lt_mul (by omega)).mpr hlt, (k / n) * n, k % n, rfl, ?_, ?_⟩
      · have := Nat.mod_lt k (show 0 < n by omega); omega
      · have := Nat.div_add_mod k n; rw [Nat.mul_comm] at this; omega
    · right
      exact ⟨k - a * n, by omega, a * n, (k - a * n) * 1, rfl, rfl, by omega⟩

/-- folding `_add_repeat_rule` over the factor list (load_grammar.py:328-329) -/
def foldRepeat (fs : List (Nat × Nat)) (start : CSet) : CSet :=
  fs.foldl (fun t ab => repeatRule ab.1 ab.2 t (single 1)) start

theorem foldRepeat_single : ∀ (fs : List (Nat × Nat)) (n : Nat) (k : Nat),
    foldRepeat fs (single n) k ↔ k = fs.foldl (fun c ab => c * ab.1 + ab.2) n := by
  intro fs
  induction fs with
  | nil => intro n k; simp [foldRepeat, single]
  | cons ab fs ih =>
    intro n k
    simp only [foldRepeat, List.foldl_cons] at ih ⊢
    have hfun : (repeatRule ab.1 ab.2 (single n) (single 1)) = single (n * ab.1 + ab.2) := by
      funext k; simp only [single]; rw [repeatRule_single, Nat.mul_comm]
    rw [hfun]; exact ih _ k

/-- the loop of load_grammar.py:335-342: returns the count set of the final optional helper -/
def foldOpt : List (Nat × Nat) → (n : Nat) → (opt : CSet) → CSet
  | [], _, opt => opt
  | (a, b) :: fs, n, opt => foldOpt fs (a * n + b) (repeatOptRule a b (single n) opt (single 1))

theorem foldOpt_upto : ∀ (fs : List (Nat × Nat)) (n : Nat), 1 ≤ n → (∀ ab ∈ fs, 1 ≤ ab.1) →
    ∀ k, foldOpt fs n (upto (n-1)) k ↔ k ≤ fs.foldl (fun c ab => c * ab.1 + ab.2) n - 1 := by
  intro fs
  induction fs with
  | nil => intro n _ _ k; simp [foldOpt, upto]
  | cons ab fs ih =>
    intro n hn hall k
    obtain ⟨a, b⟩ := ab
    have ha : 1 ≤ a := hall (a, b) (List.mem_cons_self ..)
    simp only [foldOpt, List.foldl_cons]
    have hfun : repeatOptRule a b (single n) (upto (n-1)) (single 1) = upto (a * n + b - 1) := by
      funext k; simp only [upto]; exact propext (repeatOptRule_upto a b n hn ha k)
    rw [hfun]
    have hn' : 1 ≤ a * n + b := by
      have : 1 * 1 ≤ a * n := Nat.mul_le_mul ha hn
      omega
    have := ih (a * n + b) hn' (fun ab h => hall ab (List.mem_cons_of_mem _ h)) k
    rw [Nat.mul_comm n a]; exact this


theorem smallFactors_pos (mf : Nat) (hmf : 2 < mf) (n : Nat) :
    1 ≤ n → ∀ ab ∈ smallFactors n mf, 1 ≤ ab.1 := by
  induction n using Nat.strongRecOn with
  | _ n ih =>
    intro hn ab hab
    unfold smallFactors at hab
    split at hab
    · simp at hab; subst hab; exact hn
    · rename_i hgt
      obtain ⟨r, hr⟩ := findA_some n mf hmf mf (by omega)
      have hs := findA_spec n mf mf r hr
      split at hab
      · cases hab
      · rename_i a b h
        rw [hr] at h; cases h
        simp only at hs
        split at hab
        · rcases List.mem_append.mp hab with h1 | h1
          · have hdiv : 1 ≤ n / a := Nat.div_pos (by omega) (by omega)
            exact ih (n / a) (Nat.div_lt_self (by omega) (by omega)) hdiv ab h1
          · simp at h1; subst h1; simp only; omega
        · cases hab

/-- load_grammar.py:315 `_generate_repeats`, as the set of repetition counts the generated rule matches -/
def generateRepeats (breakThr facThr mn mx : Nat) : CSet :=
  if mx < breakThr then fun k => ∃ n, mn ≤ n ∧ n ≤ mx ∧ pow (single 1) n k
  else
    let mnT := foldRepeat (smallFactors mn facThr) (single 1)
    if mx = mn then mnT
    else
      let opt := foldOpt (smallFactors (mx - mn + 1) facThr) 1 (single 0)
      fun k => ∃ x y, mnT x ∧ opt y ∧ k = x + y

/-- C09, rule side: for all bounds `mn ≤ mx` and all thresholds with `2 < facThr`,
    `x ~ mn..mx` matches exactly `mn` to `mx` occurrences of `x`. -/
theorem generateRepeats_counts (breakThr facThr : Nat) (hf : 2 < facThr) (mn mx : Nat) (hle : mn ≤ mx) (k : Nat) :
    generateRepeats breakThr facThr mn mx k ↔ mn ≤ k ∧ k ≤ mx := by
  unfold generateRepeats
  have hmnT : ∀ x, foldRepeat (smallFactors mn facThr) (single 1) x ↔ x = mn := by
    intro x
    rw [foldRepeat_single]
    have := smallFactors_correct facThr hf mn
    simp only [evalFactors] at this
    rw [this]
  split
  · constructor
    · rintro ⟨n, h1, h2, hp⟩
      have := (pow_single 1 n k).mp hp; omega
    · intro ⟨h1, h2⟩
      exact ⟨k, h1, h2, (pow_single 1 k k).mpr (by omega)⟩
  · simp only
    split
    · rename_i heq
      rw [hmnT]; omega
    · rename_i hne
      have hopt : ∀ y, foldOpt (smallFactors (mx - mn + 1) facThr) 1 (single 0) y ↔ y ≤ mx - mn := by
        intro y
        have h0 : single 0 = upto (1 - 1) := by funext z; simp [single, upto]
        rw [h0, foldOpt_upto _ 1 (Nat.le_refl 1) (smallFactors_pos facThr hf (mx - mn + 1) (by omega))]
        have := smallFactors_correct facThr hf (mx - mn + 1)
        simp only [evalFactors] at this
        rw [this]; omega
      constructor
      · rintro ⟨x, y, hx, hy, rfl⟩
        have := (hmnT x).mp hx; have := (hopt y).mp hy; omega
      · intro ⟨h1, h2⟩
        exact ⟨mn, k - mn, (hmnT mn).mpr rfl, (hopt _).mpr (by omega), by omega⟩


/-! ### The helper rules as a tree (what the driver prints and the harness rebuilds from lark's `new_rules`) -/

/-- The structure `_generate_repeats` returns, helper rules unfolded.  `rep`/`repOpt` are the bodies of the
    rules made by `_add_repeat_rule` / `_add_repeat_opt_rule`. -/
inductive RTree
  | atom
  | empty                                     -- `ST('expansion', [])`
  | rep (a b : Nat) (target : RTree)          -- target*a atom*b
  | repOpt (a b : Nat) (target opt : RTree)   -- target*i opt (i<a) | target*a atom*i (i<b)
  | naive (mn mx : Nat)                       -- atom*n for n in mn..mx
  | cat (l r : RTree)
deriving Repr, DecidableEq

def RTree.counts : RTree → CSet
  | .atom => single 1
  | .empty => single 0
  | .rep a b t => repeatRule a b t.counts (single 1)
  | .repOpt a b t o => repeatOptRule a b t.counts o.counts (single 1)
  | .naive mn mx => fun k => ∃ n, mn ≤ n ∧ n ≤ mx ∧ pow (single 1) n k
  | .cat l r => fun k => ∃ x y, l.counts x ∧ r.counts y ∧ k = x + y

def foldRepeatT (fs : List (Nat × Nat)) (start : RTree) : RTree :=
  fs.foldl (fun t ab => .rep ab.1 ab.2 t) start

def foldOptT : List (Nat × Nat) → RTree → RTree → RTree
  | [], _, opt => opt
  | (a, b) :: fs, tgt, opt => foldOptT fs (.rep a b tgt) (.repOpt a b tgt opt)

/-- load_grammar.py:315 `_generate_repeats`, executable, as a tree -/
def genTree (breakThr facThr mn mx : Nat) : RTree :=
  if mx < breakThr then .naive mn mx
  else
    let mnT := foldRepeatT (smallFactors mn facThr) .atom
    if mx = mn then mnT
    else .cat mnT (foldOptT (smallFactors (mx - mn + 1) facThr) .atom .empty)

theorem foldRepeatT_counts : ∀ (fs : List (Nat × Nat)) (t : RTree),
    (foldRepeatT fs t).counts = foldRepeat fs t.counts := by
  intro fs
  induction fs with
  | nil => intro t; rfl
  | cons ab fs ih =>
    intro t
    simp only [foldRepeatT, foldRepeat, List.foldl_cons] at ih ⊢
    rw [ih]; rfl

theorem rep_counts_single (a b n : Nat) (t : RTree) (ht : t.counts = single n) :
    (RTree.rep a b t).counts = single (a * n + b) := by
  funext k
  simp only [RTree.counts, ht]
  exact propext (repeatRule_single a b n k)

theorem foldOptT_counts : ∀ (fs : List (Nat × Nat)) (tgt opt : RTree) (n : Nat), tgt.counts = single n →
    (foldOptT fs tgt opt).counts = foldOpt fs n opt.counts := by
  intro fs
  induction fs with
  | nil => intro tgt opt n _; rfl
  | cons ab fs ih =>
    intro tgt opt n ht
    obtain ⟨a, b⟩ := ab
    simp only [foldOptT, foldOpt]
    rw [ih (.rep a b tgt) (.repOpt a b tgt opt) (a * n + b) (rep_counts_single a b n tgt ht)]
    simp only [RTree.counts, ht]

theorem genTree_counts_eq (breakThr facThr mn mx : Nat) :
    (genTree breakThr facThr mn mx).counts = generateRepeats breakThr facThr mn mx := by
  unfold genTree generateRepeats
  split
  · rfl
  · simp only
    split
    · rw [foldRepeatT_counts]; rfl
    · simp only [RTree.counts]
      rw [foldRepeatT_counts, foldOptT_counts _ _ _ 1 rfl]; rfl

/-- C09 for the executable tree: the helper-rule structure lark builds for `x ~ mn..mx` matches exactly
    `mn` to `mx` occurrences — for all bounds and all thresholds with `2 < facThr`. -/
theorem genTree_counts (breakThr facThr : Nat) (hf : 2 < facThr) (mn mx : Nat) (hle : mn ≤ mx) (k : Nat) :
    (genTree breakThr facThr mn mx).counts k ↔ mn ≤ k ∧ k ≤ mx := by
  rw [genTree_counts_eq]; exact generateRepeats_counts breakThr facThr hf mn mx hle k

/-! ### `?`, `*`, `+`  (load_grammar.py:346 `expr`) -/

/-- `_add_recurse_rule`:  `_c : c | _c c` — least fixed point as an inductive set of counts -/
inductive PlusCount : Nat → Prop
  | base : PlusCount 1
  | step {k} : PlusCount k → PlusCount (k + 1)

theorem plusCount_iff (k : Nat) : PlusCount k ↔ 1 ≤ k := by
  constructor
  · intro h; induction h with
    | base => omega
    | step _ ih => omega
  · intro h
    induction k with
    | zero => omega
    | succ k ih =>
      cases k with
      | zero => exact .base
      | succ k => exact .step (ih (by omega))

/-- `x*` is `[_c, <empty>]` -/
def starCount : CSet := fun k => PlusCount k ∨ k = 0
/-- `x?` is `[x, <empty>]` -/
def optCount : CSet := fun k => k = 1 ∨ k = 0

theorem starCount_iff (k : Nat) : starCount k ↔ True := by
  simp only [starCount, plusCount_iff]; constructor
  · intro _; trivial
  · intro _; omega

theorem optCount_iff (k : Nat) : optCount k ↔ k ≤ 1 := by
  simp only [optCount]; omega

end Proto
