namespace ScanProto

/-- the two things `_scan` asks of the lexer and the parser (parser_frontends.py:173) -/
structure Oracles where
  n : Nat                        -- end of the text (slice)
  search : Nat → Option Nat      -- `lexer.search_start`: next position ≥ pos where a non-ignored terminal matches
  attempt : Nat → Option Nat     -- stunted parse from `s`: end of the longest token prefix after which `$END` is accepted
  search_ge : ∀ p q, search p = some q → p ≤ q ∧ q < n
  attempt_gt : ∀ s e, attempt s = some e → s < e ∧ e ≤ n
  /-- `SearchSound`: a position the search jumps over cannot start a match -/
  search_sound : ∀ p x, p ≤ x → (search p = none ∨ ∃ q, search p = some q ∧ x < q) → attempt x = none

/-- the loop of `_scan`; `fuel` bounds the remaining positions -/
def scan (O : Oracles) : Nat → Nat → List (Nat × Nat)
  | 0, _ => []
  | fuel+1, pos =>
    match O.search pos with
    | none => []
    | some s =>
      match O.attempt s with
      | some e => (s, e) :: scan O fuel e
      | none => scan O fuel (s + 1)

/-- ordered, non-empty, non-overlapping, not before `lo` -/
inductive Chain : Nat → List (Nat × Nat) → Prop
  | nil (lo) : Chain lo []
  | cons (lo s e rest) : lo ≤ s → s < e → Chain e rest → Chain lo ((s, e) :: rest)

theorem scan_chain (O : Oracles) : ∀ fuel pos, Chain pos (scan O fuel pos) := by
  intro fuel
  induction fuel with
  | zero => intro pos; exact Chain.nil _
  | succ f ih =>
    intro pos
    simp only [scan]
    cases hs : O.search pos with
    | none => exact Chain.nil _
    | some s =>
      have hge := O.search_ge pos s hs
      simp only
      cases ha : O.attempt s with
      | some e =>
        have := O.attempt_gt s e ha
        exact Chain.cons pos s e _ hge.1 this.1 (ih e)
      | none =>
        have h := ih (s + 1)
        -- weaken the lower bound
        have weaken : ∀ lo lo' l, lo' ≤ lo → Chain lo l → Chain lo' l := by
          intro lo lo' l hle hc
          cases hc with
          | nil => exact Chain.nil _
          | cons _ s e rest h1 h2 h3 => exact Chain.cons lo' s e rest (by omega) h2 h3
        exact weaken _ _ _ (by omega) h

def covered (l : List (Nat × Nat)) (x : Nat) : Prop := ∃ r ∈ l, r.1 ≤ x ∧ x < r.2

/-- each reported match is the longest one the parser completes from its start -/
theorem scan_longest (O : Oracles) : ∀ fuel pos, ∀ r ∈ scan O fuel pos, O.attempt r.1 = some r.2 := by
  intro fuel
  induction fuel with
  | zero => intro pos r h; simp [scan] at h
  | succ f ih =>
    intro pos r h
    simp only [scan] at h
    cases hs : O.search pos with
    | none => simp [hs] at h
    | some s =>
      simp only [hs] at h
      cases ha : O.attempt s with
      | some e =>
        simp only [ha] at h
        rcases List.mem_cons.mp h with rfl | h
        · exact ha
        · exact ih e r h
      | none => simp only [ha] at h; exact ih _ r h

/-- C14 "no miss": with enough fuel, a position at or after `pos` that is not inside a reported match
    does not start anything the parser accepts -/
theorem scan_no_miss (O : Oracles) : ∀ fuel pos, O.n - pos < fuel → ∀ x, pos ≤ x → x < O.n →
    ¬ covered (scan O fuel pos) x → O.attempt x = none := by
  intro fuel
  induction fuel with
  | zero => intro pos h; omega
  | succ f ih =>
    intro pos hf x hx hxn hnc
    simp only [scan] at hnc
    cases hs : O.search pos with
    | none => exact O.search_sound pos x hx (Or.inl hs)
    | some s =>
      have hge := O.search_ge pos s hs
      simp only [hs] at hnc
      by_cases hxs : x < s
      · exact O.search_sound pos x hx (Or.inr ⟨s, hs, hxs⟩)
      · cases ha : O.attempt s with
        | some e =>
          have hgt := O.attempt_gt s e ha
          simp only [ha] at hnc
          by_cases hxe : x < e
          · exact absurd ⟨(s, e), List.mem_cons_self .., by simp; omega, hxe⟩ hnc
          · apply ih e (by omega) x (by omega) hxn
            intro ⟨r, hr, h1, h2⟩
            exact hnc ⟨r, List.mem_cons_of_mem _ hr, h1, h2⟩
        | none =>
          simp only [ha] at hnc
          by_cases hxeq : x = s
          · subst hxeq; exact ha
          · exact ih (s + 1) (by omega) x (by omega) hxn hnc


/-- the same loop without the proof fields (what the driver runs on tables taken from the real lexer and parser) -/
def scanRaw (search attempt : Nat → Option Nat) : Nat → Nat → List (Nat × Nat)
  | 0, _ => []
  | fuel+1, pos =>
    match search pos with
    | none => []
    | some s =>
      match attempt s with
      | some e => (s, e) :: scanRaw search attempt fuel e
      | none => scanRaw search attempt fuel (s + 1)

theorem scan_eq_raw (O : Oracles) : ∀ fuel pos, scan O fuel pos = scanRaw O.search O.attempt fuel pos := by
  intro fuel
  induction fuel with
  | zero => intro pos; rfl
  | succ f ih =>
    intro pos
    simp only [scan, scanRaw]
    cases O.search pos with
    | none => rfl
    | some s =>
      simp only
      cases O.attempt s with
      | none => exact ih _
      | some e => simp only; rw [ih]

end ScanProto
