namespace CacheProto

/-- a request: grammar text + options (one abstract value `g`), and the current contents of the imported files -/
structure Req where
  g : Nat
  imp : Nat
deriving DecidableEq

/-- what is on disk under the cache path -/
inductive File where
  | absent
  | bad                                   -- anything that fails before `_load` completes: truncated, garbage, undecodable
  | good (hdr : Nat) (used : Nat) (payload : Nat)   -- sha256 line, used-file hashes, pickled parser data
deriving DecidableEq

/-- the environment the model is parametric in -/
structure Env where
  key : Nat → Nat          -- lark.py:348 cache key of (grammar, options, version)
  hash : Nat → Nat         -- load_grammar.py:1327 digest of the imported files' contents
  build : Req → Nat        -- an uncached construction
  key_inj : ∀ a b, key a = key b → a = b
  hash_inj : ∀ a b, hash a = hash b → a = b

/-- lark.py:369-390 + 480-489: try the cache, otherwise build and rewrite -/
def openCached (E : Env) (f : File) (r : Req) : Nat × File :=
  match f with
  | File.good hdr used payload =>
      if hdr = E.key r.g ∧ used = E.hash r.imp then (payload, f)
      else (E.build r, File.good (E.key r.g) (E.hash r.imp) (E.build r))
  | _ => (E.build r, File.good (E.key r.g) (E.hash r.imp) (E.build r))

/-- everything that can happen to the file between two constructions -/
inductive Op where
  | open_ (r : Req)            -- a completed `Lark(..., cache=path)`
  | openCrash (r : Req)        -- the process dies while writing: some prefix is left behind
  | truncate                   -- external truncation at any offset
  | delete
  | foreign (r : Req)          -- a complete file written by lark for some other (grammar, options, imports)

def step (E : Env) (f : File) : Op → File × Option (Req × Nat)
  | Op.open_ r => let (p, f') := openCached E f r; (f', some (r, p))
  | Op.openCrash r =>
      match f with
      | File.good hdr used _ => if hdr = E.key r.g ∧ used = E.hash r.imp then (f, none) else (File.bad, none)
      | _ => (File.bad, none)
  | Op.truncate => (match f with | File.absent => File.absent | _ => File.bad, none)
  | Op.delete => (File.absent, none)
  | Op.foreign r => (File.good (E.key r.g) (E.hash r.imp) (E.build r), none)

/-- every decodable file was written by lark for *some* request -/
def Inv (E : Env) : File → Prop
  | File.good hdr used payload => ∃ r : Req, hdr = E.key r.g ∧ used = E.hash r.imp ∧ payload = E.build r
  | _ => True

theorem step_inv (E : Env) (f : File) (op : Op) (h : Inv E f) : Inv E (step E f op).1 := by
  cases op with
  | open_ r =>
    simp only [step, openCached]
    cases f with
    | good hdr used payload =>
      simp only
      split
      · exact h
      · exact ⟨r, rfl, rfl, rfl⟩
    | absent => exact ⟨r, rfl, rfl, rfl⟩
    | bad => exact ⟨r, rfl, rfl, rfl⟩
  | openCrash r =>
    simp only [step]
    cases f with
    | good hdr used payload => simp only; split <;> first | exact h | trivial
    | absent => trivial
    | bad => trivial
  | truncate => cases f <;> trivial
  | delete => trivial
  | foreign r => exact ⟨r, rfl, rfl, rfl⟩

/-- a completed construction returns exactly what an uncached build returns -/
theorem open_eq_build (E : Env) (f : File) (r : Req) (h : Inv E f) : (openCached E f r).1 = E.build r := by
  cases f with
  | good hdr used payload =>
    simp only [openCached]
    split
    · rename_i hc
      obtain ⟨r', h1, h2, h3⟩ := h
      have hg : r'.g = r.g := E.key_inj _ _ (h1 ▸ hc.1)
      have hi : r'.imp = r.imp := E.hash_inj _ _ (h2 ▸ hc.2)
      have : r' = r := by cases r'; cases r; simp_all
      subst this; exact h3
    · rfl
  | absent => rfl
  | bad => rfl

theorem step_out (E : Env) (f : File) (op : Op) :
    (step E f op).2 = match op with | Op.open_ r => some (r, (openCached E f r).1) | _ => none := by
  cases op with
  | open_ r => rfl
  | openCrash r => cases f <;> simp only [step] <;> (try split) <;> rfl
  | truncate => rfl
  | delete => rfl
  | foreign r => rfl

def run (E : Env) : File → List Op → File × List (Req × Nat)
  | f, [] => (f, [])
  | f, op :: ops =>
    let (f', o) := step E f op
    let (f'', outs) := run E f' ops
    (f'', match o with | some x => x :: outs | none => outs)

/-- C12: for every history of constructions, crashes, truncations, deletions and foreign files,
    every completed construction behaves like an uncached build. -/
theorem cache_refines_build (E : Env) : ∀ (ops : List Op) (f : File), Inv E f →
    ∀ ro ∈ (run E f ops).2, ro.2 = E.build ro.1 := by
  intro ops
  induction ops with
  | nil => intro f _ ro h; simp [run] at h
  | cons op ops ih =>
    intro f hinv ro hro
    simp only [run] at hro
    have hinv' := step_inv E f op hinv
    have hout := step_out E f op
    cases op with
    | open_ r =>
      simp only at hout
      rw [hout] at hro
      rcases List.mem_cons.mp hro with rfl | h
      · exact open_eq_build E f r hinv
      · exact ih _ hinv' ro h
    | openCrash r => simp only at hout; rw [hout] at hro; exact ih _ hinv' ro hro
    | truncate => simp only at hout; rw [hout] at hro; exact ih _ hinv' ro hro
    | delete => simp only at hout; rw [hout] at hro; exact ih _ hinv' ro hro
    | foreign r => simp only at hout; rw [hout] at hro; exact ih _ hinv' ro hro

/-- without injectivity of the key the theorem is false: F4's collision, abstractly -/
example : ∃ (key : Nat → Nat) (build : Req → Nat) (f : File) (r : Req),
    (∃ r' : Req, f = File.good (key r'.g) 0 (build r')) ∧
    (match f with | File.good _ _ p => p | _ => build r) ≠ build r :=
  ⟨fun _ => 0, fun r => r.g, File.good 0 0 1, ⟨2, 0⟩, ⟨⟨1, 0⟩, rfl⟩, by decide⟩

end CacheProto
