import LarkVerif.LR
namespace LRProto
open EarleyProto

/-- a concrete, finite table as the harness sends it (lark's own, or the model's) -/
structure FTable where
  items : List (List (Rule × Nat))          -- item set of state q at index q
  shifts : List (Nat × Nat × Nat)           -- (state, terminal, target)
  reduces : List (Nat × Nat × Rule)         -- (state, terminal, rule)
  gotos : List (Nat × Nat × Nat)            -- (state, nonterminal, target)
  start : Nat
  final : Nat

def FTable.itemsOf (F : FTable) (q : Nat) : List (Rule × Nat) := F.items.getD q []

/-- a dict lookup: shifts shadow reduces for the same key (lalr_analysis.py:271-298 builds shifts first and adds
    a reduce only if the key is free) -/
def FTable.action (F : FTable) (q t : Nat) : Option Action :=
  match F.shifts.find? (fun e => e.1 = q ∧ e.2.1 = t) with
  | some e => some (Action.shift e.2.2)
  | none =>
    match F.reduces.find? (fun e => e.1 = q ∧ e.2.1 = t) with
    | some e => some (Action.reduce e.2.2)
    | none => none

def FTable.goto (F : FTable) (p A : Nat) : Option Nat :=
  (F.gotos.find? (fun e => e.1 = p ∧ e.2.1 = A)).map (·.2.2)

def FTable.toTable (F : FTable) : Table :=
  { items := F.itemsOf, action := F.action, goto := F.goto, start := F.start, final := F.final }

/-- every item of the target is a dot-0 item or an item of the source advanced over `X` -/
def succOk (F : FTable) (p : Nat) (X : Sym) (q : Nat) : Bool :=
  (F.itemsOf q).all fun it =>
    it.2 = 0 || (0 < it.2 && it.1.rhs[it.2 - 1]? = some X && (F.itemsOf p).contains (it.1, it.2 - 1))

/-- the executable certificate check for `TableSafe` -/
def checkSafe (G : Grammar) (F : FTable) (s0 : Nat) : Bool :=
  F.shifts.all (fun e => succOk F e.1 (Sym.t e.2.1) e.2.2) &&
  F.gotos.all (fun e => succOk F e.1 (Sym.nt e.2.1) e.2.2) &&
  F.reduces.all (fun e => (F.itemsOf e.1).contains (e.2.2, e.2.2.rhs.length) && G.rules.contains e.2.2) &&
  (F.itemsOf F.start).all (fun it => it.2 = 0) &&
  F.shifts.all (fun e => e.2.2 ≠ F.final && e.2.2 ≠ F.start) &&
  F.gotos.all (fun e => (e.2.2 ≠ F.final || (e.1 = F.start && e.2.1 = s0)) && e.2.2 ≠ F.start)

theorem succOk_spec {F : FTable} {p q : Nat} {X : Sym} (h : succOk F p X q = true) :
    ∀ r d, (r, d) ∈ F.itemsOf q → d = 0 ∨ ∃ d', d = d' + 1 ∧ r.rhs[d']? = some X ∧ (r, d') ∈ F.itemsOf p := by
  intro r d hmem
  simp only [succOk, List.all_eq_true] at h
  have := h (r, d) hmem
  simp only [Bool.or_eq_true, Bool.and_eq_true, decide_eq_true_eq, List.contains_iff_mem] at this
  rcases this with h0 | ⟨⟨hpos, hX⟩, hin⟩
  · exact Or.inl h0
  · refine Or.inr ⟨d - 1, by omega, hX, hin⟩

/-- REFLECTION: a table that passes the check satisfies the certificate, hence (by `parse_sound`) the driver
    running on it accepts only sentences — for every input. -/
theorem checkSafe_sound (G : Grammar) (F : FTable) (s0 : Nat) (h : checkSafe G F s0 = true) :
    TableSafe G F.toTable s0 := by
  simp only [checkSafe, Bool.and_eq_true, List.all_eq_true] at h
  obtain ⟨⟨⟨⟨⟨hsh, hgo⟩, hred⟩, hst⟩, hshT⟩, hgoT⟩ := h
  -- a transition comes from an entry of the corresponding list
  have trans_cases : ∀ p X q, F.toTable.trans p X q →
      (∃ a, X = Sym.t a ∧ (p, a, q) ∈ F.shifts) ∨ (∃ A, X = Sym.nt A ∧ (p, A, q) ∈ F.gotos) := by
    intro p X q ht
    cases X with
    | t a =>
      left
      simp only [Table.trans, FTable.toTable, FTable.action] at ht
      split at ht
      · rename_i e he
        have hm := List.mem_of_find?_eq_some he
        have hp := List.find?_some he
        simp only [decide_eq_true_eq] at hp
        simp only [Option.some.injEq, Action.shift.injEq] at ht
        obtain ⟨e1, e2, e3⟩ := e
        simp only at hp ht
        obtain ⟨rfl, rfl⟩ := hp
        subst ht
        exact ⟨_, rfl, hm⟩
      · split at ht <;> simp at ht
    | nt A =>
      right
      simp only [Table.trans, FTable.toTable, FTable.goto, Option.map_eq_some_iff] at ht
      obtain ⟨e, he, rfl⟩ := ht
      have hm := List.mem_of_find?_eq_some he
      have hp := List.find?_some he
      simp only [decide_eq_true_eq] at hp
      obtain ⟨e1, e2, e3⟩ := e
      simp only at hp
      obtain ⟨rfl, rfl⟩ := hp
      exact ⟨_, rfl, hm⟩
  refine ⟨?_, ?_, ?_, ?_, ?_⟩
  · intro p X q ht r d hmem
    rcases trans_cases p X q ht with ⟨a, rfl, hm⟩ | ⟨A, rfl, hm⟩
    · exact succOk_spec (hsh _ hm) r d hmem
    · exact succOk_spec (hgo _ hm) r d hmem
  · intro q t r hact
    simp only [FTable.toTable, FTable.action] at hact
    split at hact
    · simp at hact
    · split at hact
      · rename_i e he
        have hm := List.mem_of_find?_eq_some he
        have hp := List.find?_some he
        simp only [decide_eq_true_eq] at hp
        simp only [Option.some.injEq, Action.reduce.injEq] at hact
        obtain ⟨e1, e2, e3⟩ := e
        simp only at hp hact
        obtain ⟨rfl, rfl⟩ := hp
        subst hact
        have := hred _ hm
        simp only [Bool.and_eq_true, List.contains_iff_mem] at this
        exact this
      · simp at hact
  · intro r d hmem
    have := hst (r, d) hmem
    simpa using this
  · intro p X hT
    rcases trans_cases p X F.toTable.final hT with ⟨a, rfl, hm⟩ | ⟨A, rfl, hm⟩
    · have := hshT _ hm
      simp [FTable.toTable] at this
    · have := (hgoT _ hm).1
      simp only [FTable.toTable] at this ⊢
      simp only [Bool.or_eq_true, Bool.and_eq_true, decide_eq_true_eq] at this
      rcases this with h | ⟨h1, h2⟩
      · simp at h
      · exact ⟨h1, by rw [h2]⟩
  · intro p X hT
    rcases trans_cases p X F.toTable.start hT with ⟨a, rfl, hm⟩ | ⟨A, rfl, hm⟩
    · have := hshT _ hm
      simp [FTable.toTable] at this
    · have := hgoT _ hm
      simp [FTable.toTable] at this

/-- end to end on a concrete table: check once, then every accepted token string is a sentence -/
theorem checked_table_sound (G : Grammar) (F : FTable) (s0 eof fuel : Nat) (h : checkSafe G F s0 = true)
    (toks : List Nat) (v : Sym × List Nat) (hacc : parse F.toTable eof fuel toks = Outcome.accept v) :
    DerivesSeq G [Sym.nt s0] toks :=
  (parse_sound (checkSafe_sound G F s0 h) eof fuel toks v hacc).2

end LRProto
