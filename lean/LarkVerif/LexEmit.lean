import LarkVerif.LexTiling
/-! C07: `lexBasic` (the loop `BasicLexer.lex` → `next_token`, which silently skips ignored matches) is exactly the projection of the run of all pieces
    `lexAllPieces` onto the non-ignored ones — so the tiling theorem `lexAllPieces_tiles` is a statement about what `lexBasic` returns. -/
namespace LexModel
open LexProto

def Lexer.allowed (L : Lexer) (subset : List Nat) : List Nat :=
  (L.sorted subset).filter (fun t => !L.ignore.contains t)

/-- the run of all pieces does not depend on the fuel once there is enough of it -/
theorem lexAllPieces_fuel (L : Lexer) (F : Facts) (subset : List Nat) (n : Nat)
    (hpos : ∀ t p len, F.mt t p = some len → 0 < len ∧ p + len ≤ n) :
    ∀ f pos f', pos ≤ n → n - pos ≤ f → n - pos ≤ f' → L.lexAllPieces F subset n f pos = L.lexAllPieces F subset n f' pos := by
  intro f
  induction f with
  | zero =>
    intro pos f' h1 h2 _
    have : pos = n := by omega
    subst this
    cases f' with
    | zero => rfl
    | succ f' => simp [Lexer.lexAllPieces]
  | succ f ih =>
    intro pos f' h1 h2 h3
    by_cases hlt : pos < n
    · cases f' with
      | zero => omega
      | succ f' =>
        simp only [Lexer.lexAllPieces, hlt, if_true]
        cases hfm : firstMatch F.mt pos (L.scanList (L.sorted subset)) with
        | none => rfl
        | some tl =>
          obtain ⟨t, len⟩ := tl
          obtain ⟨hl0, hle⟩ := hpos t pos len (firstMatch_some hfm).2
          have hmax : max len 1 = len := by omega
          simp only [hmax]
          rw [ih (pos + len) f' hle (by omega) (by omega)]
    · have : pos = n := by omega
      subst this
      cases f' with
      | zero => simp [Lexer.lexAllPieces]
      | succ f' => simp [Lexer.lexAllPieces]

/-- one `next_token` against the run of all pieces from the same position -/
theorem nextToken_spec (L : Lexer) (F : Facts) (subset : List Nat) (n : Nat)
    (hpos : ∀ t p len, F.mt t p = some len → 0 < len ∧ p + len ≤ n) :
    ∀ g pos f2, pos ≤ n → n - pos < g → n - pos ≤ f2 →
      match L.nextToken F subset n g pos with
      | .error e => emitted (L.lexAllPieces F subset n f2 pos).1 = [] ∧ (L.lexAllPieces F subset n f2 pos).2.2 = true ∧
                    e = .chars (L.lexAllPieces F subset n f2 pos).2.1 (L.allowed subset)
      | .ok none => emitted (L.lexAllPieces F subset n f2 pos).1 = [] ∧ (L.lexAllPieces F subset n f2 pos).2.2 = false
      | .ok (some (pc, pos')) => pos < pos' ∧ pos' ≤ n ∧ ∃ f3, n - pos' ≤ f3 ∧
          emitted (L.lexAllPieces F subset n f2 pos).1 = pc :: emitted (L.lexAllPieces F subset n f3 pos').1 ∧
          (L.lexAllPieces F subset n f3 pos').2 = (L.lexAllPieces F subset n f2 pos).2 := by
  intro g
  induction g with
  | zero => intro pos f2 _ h _; omega
  | succ g ih =>
    intro pos f2 h1 h2 h3
    by_cases hlt : pos < n
    · cases f2 with
      | zero => omega
      | succ f2 =>
        simp only [Lexer.nextToken, Lexer.lexAllPieces, hlt, if_true]
        cases hfm : firstMatch F.mt pos (L.scanList (L.sorted subset)) with
        | none => simp [emitted, Lexer.allowed]
        | some tl =>
          obtain ⟨t, len⟩ := tl
          obtain ⟨hl0, hle⟩ := hpos t pos len (firstMatch_some hfm).2
          have hmax : max len 1 = len := by omega
          simp only [hmax]
          by_cases hig : L.ignore.contains (L.retype F (L.sorted subset) t pos len) = true
          · simp only [hig, if_true]
            have := ih (pos + len) f2 hle (by omega) (by omega)
            cases hnt : L.nextToken F subset n g (pos + len) with
            | error e =>
              rw [hnt] at this
              simpa [emitted, hig] using this
            | ok o =>
              cases o with
              | none =>
                rw [hnt] at this
                simpa [emitted, hig] using this
              | some pp =>
                obtain ⟨pc, pos'⟩ := pp
                rw [hnt] at this
                obtain ⟨hp1, hp2, f3, hf3, he, hs⟩ := this
                refine ⟨by omega, hp2, f3, hf3, ?_, hs⟩
                simpa [emitted, hig] using he
          · simp only [hig, Bool.false_eq_true, if_false]
            refine ⟨by omega, hle, f2, by omega, ?_, rfl⟩
            simp [emitted, hig]
    · have : pos = n := by omega
      subst this
      cases f2 with
      | zero => simp [Lexer.nextToken, Lexer.lexAllPieces, emitted]
      | succ f2 => simp [Lexer.nextToken, Lexer.lexAllPieces, emitted]

/-- **The basic lexer's output is the run of all pieces with the ignored ones dropped**, and it ends in `UnexpectedCharacters` exactly when that run
    stops at a position where nothing matches (same position, same `allowed` set). -/
theorem lexBasic_eq_emitted (L : Lexer) (F : Facts) (all : List Nat) (n : Nat)
    (hpos : ∀ t p len, F.mt t p = some len → 0 < len ∧ p + len ≤ n) :
    ∀ f1 pos f2, pos ≤ n → n - pos ≤ f1 → n - pos ≤ f2 →
      L.lexBasic F all n f1 pos =
        (emitted (L.lexAllPieces F all n f2 pos).1,
         if (L.lexAllPieces F all n f2 pos).2.2 then some (.chars (L.lexAllPieces F all n f2 pos).2.1 (L.allowed all)) else none) := by
  intro f1
  induction f1 with
  | zero =>
    intro pos f2 h1 h2 _
    have : pos = n := by omega
    subst this
    cases f2 <;> simp [Lexer.lexBasic, Lexer.lexAllPieces, emitted]
  | succ f1 ih =>
    intro pos f2 h1 h2 h3
    have hnt := nextToken_spec L F all n hpos (n + 1) pos f2 h1 (by omega) h3
    simp only [Lexer.lexBasic]
    cases hres : L.nextToken F all n (n + 1) pos with
    | error e =>
      rw [hres] at hnt
      obtain ⟨he, herr, hee⟩ := hnt
      simp [he, herr, hee]
    | ok o =>
      cases o with
      | none =>
        rw [hres] at hnt
        obtain ⟨he, herr⟩ := hnt
        simp [he, herr]
      | some pp =>
        obtain ⟨pc, pos'⟩ := pp
        rw [hres] at hnt
        obtain ⟨hp1, hp2, f3, hf3, he, hs⟩ := hnt
        simp only
        rw [ih pos' f3 hp2 (by omega) hf3, he, hs]

end LexModel
