import LarkVerif.Shape
namespace HeapProto
open ShapeProto

abbrev Ref := Nat

/-- a value as Python holds it: tokens are immutable, a `Tree` points to its mutable `children` list -/
inductive HV where
  | tok (ty v : Nat)
  | tree (data : Nat) (kids : Ref)
  | none
deriving DecidableEq

abbrev Heap := Ref → List HV

/-- list objects reachable from a value, to depth `f` -/
def reach (h : Heap) : Nat → HV → List Ref
  | _, HV.tok _ _ => []
  | _, HV.none => []
  | 0, HV.tree _ r => [r]
  | f+1, HV.tree _ r => r :: (h r).flatMap (reach h f)

/-- the pure value a heap value denotes (needs fuel: the heap could be cyclic) -/
def den (h : Heap) : Nat → HV → Option Val
  | _, HV.tok ty v => some (Val.tok ty v)
  | _, HV.none => some Val.none
  | 0, HV.tree _ _ => Option.none
  | f+1, HV.tree d r => ((h r).mapM (den h f)).map (Val.tree d)

theorem mapM_congr {α β} (f g : α → Option β) (l : List α) (h : ∀ x ∈ l, f x = g x) : l.mapM f = l.mapM g := by
  induction l with
  | nil => rfl
  | cons a l ih =>
    simp only [List.mapM_cons]
    rw [h a (List.mem_cons_self ..), ih (fun x hx => h x (List.mem_cons_of_mem _ hx))]

/-- FRAME: the denotation of a value depends only on the list objects reachable from it -/
theorem den_frame (h h' : Heap) : ∀ (f : Nat) (v : HV), (∀ r ∈ reach h f v, h r = h' r) → den h f v = den h' f v := by
  intro f
  induction f with
  | zero => intro v _; cases v <;> rfl
  | succ f ih =>
    intro v hagree
    cases v with
    | tok ty v => rfl
    | none => rfl
    | tree d r =>
      have hr : h r = h' r := hagree r (by simp [reach])
      simp only [den, ← hr]
      congr 1
      apply mapM_congr
      intro x hx
      apply ih
      intro r' hr'
      apply hagree
      simp only [reach, List.mem_cons, List.mem_flatMap]
      exact Or.inr ⟨x, hx, hr'⟩

/-- `filtered = children[i].children; filtered += extra` (parse_tree_builder.py:126-131): the list object `r`
    is extended in place and adopted by the new node -/
def appendInPlace (h : Heap) (r : Ref) (extra : List HV) : Heap :=
  fun r' => if r' = r then h r ++ extra else h r'

/-- C13: a parser state whose reachable objects do not include the mutated list keeps its denotation —
    what a deep copy buys, and why the in-place reuse is invisible to forks -/
theorem fork_unaffected (h : Heap) (r : Ref) (extra : List HV) (f : Nat) (stackB : List HV)
    (hdisj : ∀ v ∈ stackB, r ∉ reach h f v) :
    ∀ v ∈ stackB, den (appendInPlace h r extra) f v = den h f v := by
  intro v hv
  symm
  apply den_frame
  intro r' hr'
  have : r' ≠ r := fun e => hdisj v hv (e ▸ hr')
  simp [appendInPlace, this]

/-- and the fork that did the reduction gets the pure result: if the adopted list's old elements and the
    appended values do not reach `r` themselves (no sharing — a tree-shaped value stack), the new node denotes
    `Tree(name, old_children ++ extra)` -/
theorem adopt_den (h : Heap) (r : Ref) (extra : List HV) (f name : Nat) (olds news : List Val)
    (hold : (h r).mapM (den h f) = some olds) (hnew : extra.mapM (den h f) = some news)
    (hsep : ∀ v ∈ h r ++ extra, r ∉ reach h f v) :
    den (appendInPlace h r extra) (f+1) (HV.tree name r) = some (Val.tree name (olds ++ news)) := by
  have hsame : ∀ v ∈ h r ++ extra, den (appendInPlace h r extra) f v = den h f v := by
    intro v hv
    symm
    apply den_frame
    intro r' hr'
    have : r' ≠ r := fun e => hsep v hv (e ▸ hr')
    simp [appendInPlace, this]
  have hlist : appendInPlace h r extra r = h r ++ extra := by simp [appendInPlace]
  simp only [den, hlist]
  rw [mapM_congr _ _ _ hsame, List.mapM_append, hold, hnew]
  rfl

end HeapProto
