#!/bin/bash
# usage: tools_confirm.sh <round-tag> <PROP> [<outdir>]   e.g. tools_confirm.sh r5m1 C02 /tmp/mut6/out/C02
# Confirms an independently written seeded change in a fresh scratch worktree of /repo HEAD (removed afterwards):
# patch applies; the unedited suite passes with it; the demo fails with it and passes without. On success files go to /verif/seeded/<PROP>_<tag>/.
tag=$1; p=$2; src=${3:-/tmp/mut6/out/$p}
wt=/tmp/confirm/$p.$$
git -C /repo worktree add --detach $wt HEAD >/dev/null 2>&1 || { echo "$p worktree failed"; exit 2; }
cd $wt
res="$p"
if ! git apply $src/patch.diff 2>/dev/null; then echo "$p: patch does not apply"; git -C /repo worktree remove --force $wt; exit 1; fi
/venv/bin/python -m pytest -q -p no:cacheprovider --timeout=900 --continue-on-collection-errors --junitxml=/tmp/confirm/$p.junit.xml >/tmp/confirm/$p.suite.log 2>&1
suite=$(/venv/bin/python - <<PY
import xml.etree.ElementTree as ET
r=ET.parse('/tmp/confirm/$p.junit.xml').getroot()
s=r if r.tag=='testsuite' else r.find('testsuite')
print('%s/%s/%s'%(s.get('tests'),s.get('failures'),s.get('errors')))
PY
)
timeout 300 /venv/bin/python $src/demo.py >/tmp/confirm/$p.demo_with.log 2>&1; dw=$?
git checkout -- . ; git clean -fdq
timeout 300 /venv/bin/python $src/demo.py >/tmp/confirm/$p.demo_without.log 2>&1; dwo=$?
cd /; git -C /repo worktree remove --force $wt
echo "$p suite=$suite demo_with=$dw demo_without=$dwo"
case "$suite" in */0/0) ;; *) echo "$p: suite not clean"; exit 1;; esac
[ $dw -ne 0 ] && [ $dwo -eq 0 ] || { echo "$p: demo does not discriminate"; exit 1; }
d=/verif/seeded/${p}_$tag; mkdir -p $d
cp $src/patch.diff $src/demo.py $d/
/venv/bin/python - <<PY
import json
am=json.load(open('$src/meta.json'))
json.dump({"id":"${p}_$tag","property":"$p","round":6,"author":"independent sub-agent given only the property text, the mechanisms taken in rounds 1-5, and a scratch worktree (one change asked for)","author_meta":am,
 "confirmed_by_me":{"how":"scratch worktree of /repo HEAD under /tmp (removed afterwards): git apply patch.diff; full pytest suite (junit: tests/failures/errors); demo.py with the patch; git checkout; demo.py without the patch","suite_tests_failures_errors":"$suite","demo_exit_with_patch":"$dw","demo_exit_without_patch":"$dwo"},
 "detected_by":"see seeded/MATRIX.md"}, open('$d/meta.json','w'), indent=1)
PY
echo "$p: confirmed -> $d"
