#!/bin/bash
# usage: tools_try.sh <seeded-dir-name> [check-id]   — apply a seeded change to a scratch worktree of /repo, run the check from /verif with LARK_REPO, clean up, and re-extract for the clean tree
m=$1; prop=${2:-$(echo $m | cut -c1-3)}; wt=/tmp/mx/try_$m
git -C /repo worktree add --detach $wt HEAD >/dev/null 2>&1
git -C $wt apply /verif/seeded/$m/patch.diff || { echo "patch does not apply"; git -C /repo worktree remove --force $wt; exit 2; }
cp /verif/evidence/$prop.json /tmp/mx/$prop.evidence.bak 2>/dev/null   # the evidence file must keep describing the run on /repo itself
cd /verif; LARK_REPO=$wt timeout 1500 ./check $prop 2>&1 | grep -v "WARNING\|KNOWN-FINDING" | tail -3 | cut -c1-400
cp /verif/replays/${prop}_quick_0.json /tmp/mx/$m.replay.json 2>/dev/null
git -C /repo worktree remove --force $wt
cp /tmp/mx/$prop.evidence.bak /verif/evidence/$prop.json 2>/dev/null
/venv/bin/python -W ignore /verif/harness/extract.py >/dev/null 2>&1
